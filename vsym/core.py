"""vsym core: symbolic proxies, path context (symbolic and concrete), explorer.

Dynamic symbolic execution by re-execution.  The harness body is an ordinary
Python function `body(ctx, cfg)` that builds the real vivarium objects, feeds
them values obtained from `ctx.int/ctx.bool/ctx.choice`, and states claims with
`ctx.claim`.  With a SymCtx the values are proxies carrying SMT-LIB terms and
every Python branch on them is decided by the solver; with a ConcreteCtx (replay)
they are plain ints/bools taken from a model and claims are evaluated by Python.
"""
import math
import time
import random

from .solver import Solver, SolverError

CUR = None   # the active SymCtx of this (worker) process


# --------------------------------------------------------------------------
# control-flow exceptions (BaseException so that `except Exception` in the
# code under test does not swallow them; see also the poison flag)

class PathControl(BaseException):
    pass


class Abandon(PathControl):
    """path infeasible / assumption unsatisfiable"""


class UnwindCut(PathControl):
    """unwinding bound exceeded"""


class ForeignCut(PathControl):
    """an exception owned by another property ended the path"""


class BudgetCut(PathControl):
    pass


class HarnessError(BaseException):
    """the machinery itself failed (exit 2)"""


class Reproduced(BaseException):
    """concrete replay: the claim under replay failed"""


# --------------------------------------------------------------------------
# terms

def smt_int(n):
    return str(n) if n >= 0 else '(- %d)' % -n


def is_sym(x):
    t = type(x)
    return t is SymInt or t is SymBool


def term(x):
    t = type(x)
    if t is SymInt or t is SymBool:
        return x.s
    if t is bool:
        return 'true' if x else 'false'
    if t is int:
        return smt_int(x)
    # numpy ints / bools
    try:
        import numpy as np
        if isinstance(x, np.bool_):
            return 'true' if x else 'false'
        if isinstance(x, np.integer):
            return smt_int(int(x))
    except ImportError:
        pass
    if isinstance(x, float) and x == int(x) and not math.isinf(x):
        return smt_int(int(x))
    raise HarnessError('cannot turn %r (%s) into a term' % (x, t.__name__))


def _ctx():
    if CUR is None:
        raise HarnessError('symbolic value used outside an exploration')
    return CUR


class SymBool:
    __slots__ = ('s',)

    def __init__(self, s):
        self.s = s

    @property
    def __class__(self):
        return bool

    def __bool__(self):
        return _ctx().branch(self.s)

    def __and__(self, o):
        if type(o) is bool:
            return self if o else False
        return SymBool('(and %s %s)' % (self.s, term(o)))
    __rand__ = __and__

    def __or__(self, o):
        if type(o) is bool:
            return True if o else self
        return SymBool('(or %s %s)' % (self.s, term(o)))
    __ror__ = __or__

    def __invert__(self):
        return SymBool('(not %s)' % self.s)

    def __eq__(self, o):
        if type(o) is bool:
            return self if o else ~self
        if type(o) is SymBool:
            return SymBool('(= %s %s)' % (self.s, o.s))
        if type(o) is int or type(o) is SymInt:
            return SymInt('(ite %s 1 0)' % self.s) == o
        return False

    def __ne__(self, o):
        e = self.__eq__(o)
        return (not e) if type(e) is bool else ~e

    def __hash__(self):
        return hash(bool(self))

    # bool is an int in Python: arithmetic on it
    def _as_int(self):
        return SymInt('(ite %s 1 0)' % self.s)

    def __add__(self, o):
        return self._as_int() + o
    __radd__ = __add__

    def __index__(self):
        return int(bool(self))

    def __int__(self):
        return int(bool(self))

    def __deepcopy__(self, memo):
        return self

    def __copy__(self):
        return self

    def __reduce__(self):
        raise HarnessError('pickling a symbolic value')

    def __repr__(self):
        return 'SymBool(%s)' % self.s


class SymInt:
    __slots__ = ('s',)

    def __init__(self, s):
        self.s = s

    @property
    def __class__(self):
        return int

    # -- arithmetic -------------------------------------------------------
    def _bin(self, op, o, rev=False):
        to = type(o)
        if to is float:
            if o == int(o) and not math.isinf(o):
                o = int(o)
            else:
                return NotImplemented
        elif to is SymBool:
            o = o._as_int()
        elif to is not int and to is not SymInt and to is not bool:
            try:
                o = int(o) if _is_np_int(o) else None
            except Exception:
                o = None
            if o is None:
                return NotImplemented
        a, b = (term(o), self.s) if rev else (self.s, term(o))
        return SymInt('(%s %s %s)' % (op, a, b))

    def __add__(self, o):
        if type(o) is int and o == 0:
            return self
        return self._bin('+', o)

    def __radd__(self, o):
        if type(o) is int and o == 0:
            return self
        return self._bin('+', o, True)

    def __sub__(self, o):
        if type(o) is int and o == 0:
            return self
        return self._bin('-', o)

    def __rsub__(self, o):
        return self._bin('-', o, True)

    def __mul__(self, o):
        if type(o) is bool:
            o = int(o)
        if type(o) is float and o == int(o):
            o = int(o)
        if type(o) is not int:
            if is_sym(o):
                raise HarnessError('symbolic * symbolic is outside QF_LIA')
            return NotImplemented
        if o == 0:
            return 0
        if o == 1:
            return self
        return SymInt('(* %s %s)' % (smt_int(o), self.s))
    __rmul__ = __mul__

    def __neg__(self):
        return SymInt('(- %s)' % self.s)

    def __pos__(self):
        return self

    def __abs__(self):
        return SymInt('(ite (>= %s 0) %s (- %s))' % (self.s, self.s, self.s))

    def __floordiv__(self, o):
        if type(o) is not int or o <= 0:
            raise HarnessError('// only by a positive constant')
        return SymInt('(div %s %d)' % (self.s, o))

    def __mod__(self, o):
        if type(o) is not int or o <= 0:
            raise HarnessError('%% only by a positive constant')
        return SymInt('(mod %s %d)' % (self.s, o))

    def __truediv__(self, o):
        raise HarnessError('true division of a symbolic integer (float result)')

    def __rtruediv__(self, o):
        raise HarnessError('true division by a symbolic integer')

    def __pow__(self, o):
        raise HarnessError('pow on symbolic integer')

    def __round__(self, n=None):
        if n is None or (type(n) is int and n >= 0):
            return self
        raise HarnessError('round to negative digits')

    def __floor__(self):
        return self

    def __ceil__(self):
        return self

    def __trunc__(self):
        return self

    # -- comparisons -------------------------------------------------------
    def _cmp(self, op, o, inf_pos, inf_neg):
        to = type(o)
        if to is float:
            if o == math.inf:
                return inf_pos
            if o == -math.inf:
                return inf_neg
            if o != o:
                return False
            if o == int(o):
                o = int(o)
            else:
                # x < 2.5  <=>  x <= 2 etc.
                fl = math.floor(o)
                if op in ('<', '<='):
                    return SymBool('(<= %s %s)' % (self.s, smt_int(fl)))
                if op in ('>', '>='):
                    return SymBool('(> %s %s)' % (self.s, smt_int(fl)))
                return False
        elif to is SymBool:
            o = o._as_int()
        elif to is not int and to is not SymInt and to is not bool:
            if _is_np_int(o):
                o = int(o)
            else:
                return NotImplemented
        return SymBool('(%s %s %s)' % (op, self.s, term(o)))

    def __lt__(self, o):
        return self._cmp('<', o, True, False)

    def __le__(self, o):
        return self._cmp('<=', o, True, False)

    def __gt__(self, o):
        return self._cmp('>', o, False, True)

    def __ge__(self, o):
        return self._cmp('>=', o, False, True)

    def __eq__(self, o):
        r = self._cmp('=', o, False, False)
        return False if r is NotImplemented else r

    def __ne__(self, o):
        e = self.__eq__(o)
        return (not e) if type(e) is bool else ~e

    # -- consumers that need a concrete value ------------------------------
    def __bool__(self):
        return _ctx().branch('(not (= %s 0))' % self.s)

    def __index__(self):
        return _ctx().concretize(self.s)

    def __int__(self):
        return _ctx().concretize(self.s)

    def __float__(self):
        return float(_ctx().concretize(self.s))

    def __hash__(self):
        return hash(_ctx().concretize(self.s))

    def __deepcopy__(self, memo):
        return self

    def __copy__(self):
        return self

    def __reduce__(self):
        raise HarnessError('pickling a symbolic value')

    def __repr__(self):
        return 'SymInt(%s)' % self.s

    def __format__(self, spec):
        return 'SymInt(%s)' % self.s


def _is_np_int(o):
    try:
        import numpy as np
        return isinstance(o, (np.integer, np.bool_))
    except ImportError:
        return False


# --------------------------------------------------------------------------
# term builders usable with symbolic and concrete values alike

def ite(c, a, b):
    if type(c) is not SymBool:
        return a if c else b
    if type(a) is SymBool or type(b) is SymBool or type(a) is bool:
        return SymBool('(ite %s %s %s)' % (c.s, term(a), term(b)))
    return SymInt('(ite %s %s %s)' % (c.s, term(a), term(b)))


def AND(*xs):
    if len(xs) == 1 and isinstance(xs[0], (list, tuple)):
        xs = xs[0]
    syms = []
    for x in xs:
        if type(x) is SymBool:
            syms.append(x.s)
        elif type(x) is SymInt:
            syms.append('(not (= %s 0))' % x.s)
        elif not x:
            return False
    if not syms:
        return True
    if len(syms) == 1:
        return SymBool(syms[0])
    return SymBool('(and %s)' % ' '.join(syms))


def OR(*xs):
    if len(xs) == 1 and isinstance(xs[0], (list, tuple)):
        xs = xs[0]
    syms = []
    for x in xs:
        if type(x) is SymBool:
            syms.append(x.s)
        elif type(x) is SymInt:
            syms.append('(not (= %s 0))' % x.s)
        elif x:
            return True
    if not syms:
        return False
    if len(syms) == 1:
        return SymBool(syms[0])
    return SymBool('(or %s)' % ' '.join(syms))


def NOT(x):
    if type(x) is SymBool:
        return ~x
    if type(x) is SymInt:
        return x == 0
    return not x


def IMPLIES(a, b):
    return OR(NOT(a), b)


def EQ(a, b):
    """Equality that never forks: SymBool / bool."""
    if is_sym(a) or is_sym(b):
        if is_sym(a):
            r = a.__eq__(b)
        else:
            r = b.__eq__(a)
        if r is NotImplemented:
            return False
        return r
    if type(a) is not type(b) and not (
            isinstance(a, (int, float)) and isinstance(b, (int, float))):
        return False
    r = (a == b)
    try:
        return bool(r)
    except Exception:
        return False


def SUM(xs, start=0):
    acc = start
    for x in xs:
        acc = acc + x
    return acc


def MIN(a, b):
    c = a <= b
    return ite(c, a, b)


def MAX(a, b):
    c = a >= b
    return ite(c, a, b)


# --------------------------------------------------------------------------
# contexts

class _Base:
    symbolic = False

    def note(self, key, value):
        self.notes[key] = value

    def goal(self, name):
        self.goals.add(name)

    def observe(self, label, value):
        self.observations.append((label, value))

    def report(self, key, value):
        """Free-form per-job facts that end up in the evidence file."""
        self.reports.setdefault(key, []).append(value)


class SymCtx(_Base):
    """One exploration (one job): owns the solver and the DFS state."""
    symbolic = True

    def __init__(self, solver=None, seed=0, deadline=None, max_paths=None,
                 crosscheck=None, prop='P'):
        self.prop = prop
        self.solver = solver or Solver()
        self.rng = random.Random(seed)
        self.seed = seed
        self.deadline = deadline
        self.max_paths = max_paths
        self.crosscheck = crosscheck   # CrossLog or None
        self.stats = dict(
            paths=0, completed=0, nodes=0, edges=0, claims=0, discharged=0,
            failed=0, undecided=0, cut_unwinding=0, cut_foreign=0,
            cut_infeasible=0, open_alternatives=0, branch_cache_hits=0,
            concretizations=0)
        self.claim_counts = {}
        self.foreign = {}
        self.counterexamples = []     # dicts
        self.goals = set()
        self.samples = []
        self.validate = []            # (model, observations values) to replay
        self.reports = {}
        self.exhaustive = False
        self.poison = None
        # per path
        self._reset_path([])

    # -- path state --------------------------------------------------------
    def _reset_path(self, prefix):
        self.prefix = prefix
        self.pos = 0
        self.trace = []      # [choice, other_open, payload]
        self.decls = []      # (name, sort)
        self.asserts = []
        self.known = {}      # cond smt -> bool implied by pc
        self.conc = {}       # term -> concrete value fixed on this path
        self.counters = {}
        self.vars = []
        self.notes = {}
        self.observations = []
        self.poison = None
        self.path_failed_claims = []

    def _name(self, label):
        n = self.counters.get(label, 0)
        self.counters[label] = n + 1
        return '%s_%d' % (label, n)

    def _assert(self, s):
        self.solver.send('(assert %s)' % s)
        self.asserts.append(s)

    # -- symbolic inputs -----------------------------------------------------
    def int(self, label, lo=None, hi=None):
        name = self._name(label)
        self.solver.send('(declare-const %s Int)' % name)
        self.decls.append((name, 'Int'))
        self.vars.append(name)
        if lo is not None:
            self._assert('(>= %s %s)' % (name, smt_int(lo)))
        if hi is not None:
            self._assert('(<= %s %s)' % (name, smt_int(hi)))
        return SymInt(name)

    def bool(self, label):
        name = self._name(label)
        self.solver.send('(declare-const %s Bool)' % name)
        self.decls.append((name, 'Bool'))
        self.vars.append(name)
        return SymBool(name)

    def choice(self, label, k):
        """A concrete index 0..k-1 chosen by forking on a fresh variable."""
        if k <= 1:
            return 0
        c = self.int(label, 0, k - 1)
        for i in range(k - 1):
            if self.branch('(= %s %d)' % (c.s, i)):
                return i
        return k - 1

    def flag(self, label):
        """A concrete boolean chosen by forking."""
        return bool(self.bool(label))

    # -- branching -------------------------------------------------------------
    def _raise(self, exc):
        self.poison = exc
        raise exc

    def branch(self, cond, payload=None, use_cache=True):
        if use_cache:
            k = self.known.get(cond)
            if k is not None:
                self.stats['branch_cache_hits'] += 1
                return k
        i = self.pos
        self.pos += 1
        if i < len(self.prefix):
            choice, other, pl, pcond = self.prefix[i]
            if pcond != cond:
                self._raise(HarnessError(
                    'nondeterministic re-execution: decision %d was %s, now %s'
                    % (i, pcond, cond)))
            self.trace.append([choice, other, pl, cond])
        else:
            if self.deadline is not None and time.time() > self.deadline:
                self._raise(BudgetCut())
            s = self.solver
            t = s.check_assuming(cond)
            if t == 'unsat':
                f = 'sat'    # pc is satisfiable, so the other side is
            else:
                f = s.check_assuming('(not %s)' % cond)
            if 'unknown' in (t, f):
                self.stats['undecided'] += 1
            t = (t == 'sat')
            f = (f == 'sat')
            self.stats['nodes'] += 1
            self.stats['edges'] += int(t) + int(f)
            if not t and not f:
                self._raise(Abandon())
            if t and f:
                choice = bool(self.rng.getrandbits(1)) if self.seed else True
            else:
                choice = t
            self.trace.append([choice, t and f, payload, cond])
        self._assert(cond if choice else '(not %s)' % cond)
        self.known[cond] = choice
        self.known['(not %s)' % cond] = not choice
        return choice

    def concretize(self, s):
        """Fork on the value of an integer term: returns a concrete int."""
        if s in self.conc:
            return self.conc[s]
        self.stats['concretizations'] += 1
        while True:
            i = self.pos
            if i < len(self.prefix):
                v = self.prefix[i][2]
                if v is None:
                    self._raise(HarnessError(
                        'nondeterministic re-execution at a concretization'))
            else:
                if self.solver.check() != 'sat':
                    self.stats['undecided'] += 1
                    self._raise(Abandon())
                v = self.solver.get_values([s])[0]
            cond = '(= %s %s)' % (s, smt_int(v))
            if self.branch(cond, payload=v, use_cache=False):
                self.conc[s] = v
                return v

    def assume(self, expr):
        if type(expr) is SymBool:
            r = self.solver.check_assuming(expr.s)
            if r != 'sat':
                if r == 'unknown':
                    self.stats['undecided'] += 1
                self._raise(Abandon())
            self._assert(expr.s)
            self.known[expr.s] = True
        elif not expr:
            self._raise(Abandon())

    # -- claims ----------------------------------------------------------------
    def model(self, extra_terms=()):
        vals = self.solver.get_values(self.vars + list(extra_terms))
        m = dict(zip(self.vars, vals[:len(self.vars)]))
        return m, vals[len(self.vars):]

    def claim(self, cid, expr, sig=None, info=None):
        """Decide pc => expr.  Returns True when it holds on this path."""
        self.stats['claims'] += 1
        self.claim_counts[cid] = self.claim_counts.get(cid, 0) + 1
        s = self.solver
        if type(expr) is SymInt:
            expr = expr != 0
        if type(expr) is SymBool:
            s.send('(push)')
            s.send('(assert (not %s))' % expr.s)
            r = s.check()
            if self.crosscheck is not None:
                self.crosscheck.add(self.decls, self.asserts,
                                    '(not %s)' % expr.s, r)
            if r == 'unsat':
                s.send('(pop)')
                self.stats['discharged'] += 1
                return True
            if r == 'unknown':
                s.send('(pop)')
                self.stats['undecided'] += 1
                return True
            m, _ = self.model()
            s.send('(pop)')
        elif expr:
            self.stats['discharged'] += 1
            return True
        else:
            if s.check() != 'sat':
                self.stats['undecided'] += 1
                return True
            m, _ = self.model()
        self.stats['failed'] += 1
        if callable(sig):
            sig = sig(m)
        if callable(info):
            info = _plain(info())
        self.counterexamples.append(dict(
            claim=cid, sig=sig or '', model=m, info=info,
            notes=dict(self.notes)))
        self.path_failed_claims.append(cid)
        return False

    def cut_unwinding(self):
        self._raise(UnwindCut())

    def cut_foreign(self, exc):
        key = '%s: %s' % (type(exc).__name__, str(exc)[:90])
        self.foreign[key] = self.foreign.get(key, 0) + 1
        self._raise(ForeignCut())

    def check_poison(self):
        """Call in `except Exception` handlers of a harness: re-raises the
        explorer's own control exception if the code under test wrapped it."""
        if self.poison is not None:
            raise self.poison

    # -- exploration -------------------------------------------------------------
    def explore(self, body, cfg, n_samples=3, n_validate=0, profile=None):
        global CUR
        prefix = []
        s = self.solver
        while True:
            self._reset_path(prefix)
            s.send('(push)')
            CUR = self
            outcome = 'completed'
            prof_on = profile is not None and self.stats['paths'] == 0
            try:
                if prof_on:
                    profile.start()
                try:
                    body(self, cfg)
                finally:
                    if prof_on:
                        profile.stop()
                if self.poison is not None:
                    raise self.poison
            except PathControl as e:
                e = self.poison if self.poison is not None else e
                outcome = type(e).__name__
            except HarnessError:
                raise
            except Exception as e:
                if self.poison is not None:
                    outcome = type(self.poison).__name__
                    if isinstance(self.poison, HarnessError):
                        raise self.poison
                else:
                    where = raised_in_repo(e)
                    if where is None:
                        s.send('(pop)')
                        CUR = None
                        raise HarnessError(
                            'unhandled exception in harness body: %s: %s'
                            % (type(e).__name__, e)) from e
                    # the code under test raised on an input the harness
                    # considers well-formed: a counterexample of <P>.no_crash
                    outcome = 'crash'
                    self.stats['claims'] += 1
                    cid = '%s.no_crash' % self.prop
                    self.claim_counts[cid] = self.claim_counts.get(cid, 0) + 1
                    if s.check() == 'sat':
                        m, _ = self.model()
                        self.stats['failed'] += 1
                        self.counterexamples.append(dict(
                            claim=cid, sig='%s@%s' % (type(e).__name__, where),
                            model=m, info=str(e)[:300],
                            notes=_plain(dict(self.notes))))
            self.stats['paths'] += 1
            if outcome == 'completed':
                self.stats['completed'] += 1
                want_sample = len(self.samples) < n_samples
                want_val = len(self.validate) < n_validate
                if (want_sample or want_val) and s.check() == 'sat':
                    obs_terms = [term(v) for _, v in self.observations
                                 if is_sym(v)]
                    m, ov = self.model(obs_terms)
                    ov = list(ov)
                    obs = []
                    for label, v in self.observations:
                        obs.append([label, ov.pop(0) if is_sym(v) else
                                    _plain(v)])
                    if want_sample:
                        self.samples.append(dict(
                            model=m, notes=_plain(dict(self.notes)),
                            decisions=len(self.trace),
                            failed_claims=list(self.path_failed_claims)))
                    if want_val:
                        self.validate.append(dict(model=m, observations=obs))
            elif outcome == 'crash':
                self.stats['crashed'] = self.stats.get('crashed', 0) + 1
            elif outcome == 'UnwindCut':
                self.stats['cut_unwinding'] += 1
            elif outcome == 'ForeignCut':
                self.stats['cut_foreign'] += 1
            elif outcome == 'Abandon':
                self.stats['cut_infeasible'] += 1
            s.send('(pop)')
            CUR = None
            # backtrack
            tr = self.trace
            if outcome == 'BudgetCut' or (
                    self.max_paths and self.stats['paths'] >= self.max_paths):
                self.stats['open_alternatives'] = sum(1 for t in tr if t[1])
                self.exhaustive = False
                return
            while tr and not tr[-1][1]:
                tr.pop()
            if not tr:
                self.exhaustive = True
                return
            last = tr.pop()
            prefix = [list(t) for t in tr] + [
                [not last[0], False, last[2], last[3]]]


def _plain(v):
    if isinstance(v, dict):
        return {str(k): _plain(x) for k, x in v.items()}
    if isinstance(v, (list, tuple, set, frozenset)):
        return [_plain(x) for x in v]
    if is_sym(v):
        return repr(v)
    if isinstance(v, (int, float, str, bool)) or v is None:
        return v
    return repr(v)


class ConcreteCtx(_Base):
    """Replay: plain values from a model, claims evaluated by Python."""
    symbolic = False

    def __init__(self, model, target_claim=None, stop_on_fail=True):
        self.m = model
        self.counters = {}
        self.target = target_claim
        self.stop_on_fail = stop_on_fail
        self.failed = []
        self.notes = {}
        self.goals = set()
        self.observations = []
        self.assume_failed = False
        self.poison = None
        self.claim_counts = {}
        self.reports = {}

    def _name(self, label):
        n = self.counters.get(label, 0)
        self.counters[label] = n + 1
        return '%s_%d' % (label, n)

    def int(self, label, lo=None, hi=None):
        name = self._name(label)
        if name in self.m:
            return int(self.m[name])
        return lo if lo is not None else (hi if hi is not None else 0)

    def bool(self, label):
        return bool(self.m.get(self._name(label), False))

    def choice(self, label, k):
        if k <= 1:
            return 0
        return self.int(label, 0, k - 1)

    def flag(self, label):
        return self.bool(label)

    def assume(self, expr):
        if not expr:
            self.assume_failed = True
            raise Abandon()

    def claim(self, cid, expr, sig=None, info=None):
        self.claim_counts[cid] = self.claim_counts.get(cid, 0) + 1
        if expr:
            return True
        if callable(sig):
            sig = sig(self.m)
        if callable(info):
            info = info()
        self.failed.append(dict(claim=cid, sig=sig or '', info=_plain(info),
                                notes=_plain(dict(self.notes))))
        if self.stop_on_fail and (self.target is None or self.target == cid):
            raise Reproduced()
        return False

    def cut_unwinding(self):
        raise UnwindCut()

    def cut_foreign(self, exc):
        raise ForeignCut()

    def check_poison(self):
        pass


def run_concrete(body, cfg, model, target_claim=None, stop_on_fail=True):
    """Replay a model against the real code with plain values.
    Returns (ConcreteCtx, outcome)."""
    ctx = ConcreteCtx(model, target_claim, stop_on_fail)
    try:
        body(ctx, cfg)
        outcome = 'completed'
    except Reproduced:
        outcome = 'reproduced'
    except PathControl as e:
        outcome = type(e).__name__
    except Exception as e:
        where = raised_in_repo(e)
        if where is None:
            raise
        ctx.failed.append(dict(
            claim='%s.no_crash' % (target_claim or 'P.').split('.')[0],
            sig='%s@%s' % (type(e).__name__, where), info=str(e)[:300],
            notes=_plain(dict(ctx.notes))))
        outcome = 'reproduced' if (target_claim or '').endswith('.no_crash') \
            else 'crash'
    return ctx, outcome


def raised_in_repo(err):
    """'file.py:function' of the innermost frame when the exception was raised
    by code of the repository under test (not by the harness), else None."""
    import os
    repo = os.environ.get('VERIF_REPO', '/repo') + '/'
    tb = err.__traceback__
    last = None
    while tb is not None:
        last = tb.tb_frame.f_code
        tb = tb.tb_next
    if last is not None and last.co_filename.startswith(repo):
        return '%s:%s' % (os.path.basename(last.co_filename), last.co_name)
    return None


# --------------------------------------------------------------------------
# evaluating a term under a model (for signatures and descriptions)

def _ev(e, m):
    if isinstance(e, str):
        if e == 'true':
            return True
        if e == 'false':
            return False
        if e.lstrip('-').isdigit():
            return int(e)
        if e not in m:
            raise KeyError(e)
        return m[e]
    op = e[0]
    if op == 'ite':
        return _ev(e[2], m) if _ev(e[1], m) else _ev(e[3], m)
    if op == 'and':
        return all(_ev(x, m) for x in e[1:])
    if op == 'or':
        return any(_ev(x, m) for x in e[1:])
    if op == 'not':
        return not _ev(e[1], m)
    if op == '=>':
        return (not _ev(e[1], m)) or _ev(e[2], m)
    a = [_ev(x, m) for x in e[1:]]
    if op == '+':
        return sum(a)
    if op == '-':
        return -a[0] if len(a) == 1 else a[0] - sum(a[1:])
    if op == '*':
        r = 1
        for x in a:
            r *= x
        return r
    if op == 'div':
        return a[0] // a[1]     # positive constant divisors only
    if op == 'mod':
        return a[0] % a[1]
    if op == '=':
        return all(x == a[0] for x in a[1:])
    if op == '<':
        return a[0] < a[1]
    if op == '<=':
        return a[0] <= a[1]
    if op == '>':
        return a[0] > a[1]
    if op == '>=':
        return a[0] >= a[1]
    raise HarnessError('evaluate: unknown operator %r' % op)


def evaluate(v, m):
    """Value of a (possibly symbolic) value under model m; variables missing
    from the model (created after the claim point) evaluate to None."""
    if not is_sym(v):
        return v
    from .solver import parse_sexpr
    try:
        return _ev(parse_sexpr(v.s), m)
    except KeyError:
        return None
