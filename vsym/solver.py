"""SMT-LIB2 pipe to a long-lived solver process (z3 -in), push/pop, value parsing.

One Solver per worker process.  Every answer that is not `sat`/`unsat` is
reported to the caller as 'unknown' (never silently turned into a verdict), and
any `(error` line raises SolverError.
"""
import subprocess
import time


class SolverError(Exception):
    pass


def parse_sexpr(text):
    """Parse one s-expression from text -> nested lists / atoms (str)."""
    tokens = text.replace('(', ' ( ').replace(')', ' ) ').split()
    pos = [0]

    def rd():
        t = tokens[pos[0]]
        pos[0] += 1
        if t == '(':
            out = []
            while tokens[pos[0]] != ')':
                out.append(rd())
            pos[0] += 1
            return out
        return t
    return rd()


def sexpr_value(e):
    """Value of a model value s-expression: int or bool."""
    if isinstance(e, str):
        if e == 'true':
            return True
        if e == 'false':
            return False
        return int(e)
    if len(e) == 2 and e[0] == '-':
        return -sexpr_value(e[1])
    raise SolverError('cannot parse value %r' % (e,))


class Solver:
    def __init__(self, cmd=('/usr/bin/z3', '-in'), logic='QF_LIA',
                 timeout_ms=20000):
        self.cmd = cmd
        self.logic = logic
        self.timeout_ms = timeout_ms
        self.queries = 0
        self.solver_s = 0.0
        self.unknown = 0
        self._start()

    def _start(self):
        self.p = subprocess.Popen(
            self.cmd, stdin=subprocess.PIPE, stdout=subprocess.PIPE,
            stderr=subprocess.STDOUT, text=True, bufsize=1 << 16)
        self.send('(set-option :produce-models true)')
        if self.timeout_ms:
            self.send('(set-option :timeout %d)' % self.timeout_ms)
        if self.logic:
            self.send('(set-logic %s)' % self.logic)

    def close(self):
        try:
            self.p.stdin.close()
            self.p.wait(timeout=2)
        except Exception:
            self.p.kill()

    def send(self, s):
        self.p.stdin.write(s)
        self.p.stdin.write('\n')

    def _readline(self):
        line = self.p.stdout.readline()
        if not line:
            raise SolverError('solver process ended')
        if line.startswith('(error'):
            raise SolverError(line.strip())
        return line

    def check(self):
        t0 = time.perf_counter()
        self.send('(check-sat)')
        self.p.stdin.flush()
        r = self._readline().strip()
        self.queries += 1
        self.solver_s += time.perf_counter() - t0
        if r in ('sat', 'unsat'):
            return r
        self.unknown += 1
        return 'unknown'

    def check_assuming(self, term):
        """sat/unsat/unknown of (current assertions and term)."""
        self.send('(push)')
        self.send('(assert %s)' % term)
        r = self.check()
        self.send('(pop)')
        return r

    def get_values(self, terms):
        """Values of terms in the current model (after a `sat`)."""
        if not terms:
            return []
        t0 = time.perf_counter()
        self.send('(get-value (%s))' % ' '.join(terms))
        self.p.stdin.flush()
        out = ''
        depth = 0
        while True:
            line = self._readline()
            out += line
            depth += line.count('(') - line.count(')')
            if depth <= 0 and out.strip():
                break
        self.solver_s += time.perf_counter() - t0
        parsed = parse_sexpr(out)
        if len(parsed) != len(terms):
            raise SolverError('get-value arity mismatch')
        return [sexpr_value(pair[-1]) for pair in parsed]


def run_file(cmd, path, timeout=120):
    """Run a solver binary on an .smt2 file -> list of answer lines."""
    try:
        r = subprocess.run(list(cmd) + [path], capture_output=True, text=True,
                           timeout=timeout)
    except subprocess.TimeoutExpired:
        return None
    return [l.strip() for l in r.stdout.splitlines() if l.strip()]
