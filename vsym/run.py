"""Job runner: pool of explorations, counterexample replay, known findings,
solver cross-check, evidence."""
import hashlib
import json
import multiprocessing
import os
import shutil
import sys
import tempfile
import time
import traceback

from . import core
from .core import SymCtx, run_concrete, HarnessError
from .solver import Solver, run_file

VERIF = os.path.dirname(os.path.dirname(os.path.abspath(__file__)))
REPO = os.environ.get('VERIF_REPO', '/repo')
# evidence/ and replays/ go under VERIF unless a scratch run redirects them
OUT = os.environ.get('VERIF_OUT', VERIF)


# --------------------------------------------------------------------------

class CrossLog:
    """Collects claim queries of one job as an incremental SMT-LIB script that
    other solvers re-decide."""

    def __init__(self, limit):
        self.limit = limit
        self.items = []

    def add(self, decls, asserts, negated_claim, answer):
        if len(self.items) >= self.limit and answer != 'sat':
            return
        if len(self.items) >= 4 * self.limit:
            return
        self.items.append((list(decls), list(asserts), negated_claim, answer))

    def script(self):
        out = ['(set-logic QF_LIA)']
        for decls, asserts, neg, _ in self.items:
            out.append('(push 1)')
            for n, srt in decls:
                out.append('(declare-const %s %s)' % (n, srt))
            for a in asserts:
                out.append('(assert %s)' % a)
            out.append('(assert %s)' % neg)
            out.append('(check-sat)')
            out.append('(pop 1)')
        return '\n'.join(out) + '\n'


class Profiler:
    def __init__(self):
        self.names = set()

    def _cb(self, frame, event, arg):
        if event == 'call':
            co = frame.f_code
            fn = co.co_filename
            if fn.startswith(REPO + '/vivarium'):
                mod = fn[len(REPO) + 1:-3].replace('/', '.')
                self.names.add('%s.%s' % (mod, getattr(co, 'co_qualname',
                                                       co.co_name)))

    def start(self):
        sys.setprofile(self._cb)

    def stop(self):
        sys.setprofile(None)


def _run_job(args):
    modname, cfg, seed, tier = args
    t0 = time.time()
    try:
        H = __import__(modname, fromlist=['body'])
        budget = cfg.get('budget_s')
        deadline = t0 + budget if budget else None
        cross = CrossLog(cfg.get('crosscheck', 0)) if cfg.get('crosscheck') \
            else None
        solver = Solver()
        ctx = SymCtx(solver=solver, seed=seed, deadline=deadline,
                     max_paths=cfg.get('max_paths'), crosscheck=cross,
                     prop=H.PROPERTY)
        prof = Profiler()
        try:
            ctx.explore(H.body, cfg, n_samples=cfg.get('samples', 2),
                        n_validate=cfg.get('validate', 3), profile=prof)
        finally:
            solver.close()
        res = dict(
            cfg=cfg, stats=ctx.stats, claim_counts=ctx.claim_counts,
            foreign=ctx.foreign, counterexamples=ctx.counterexamples,
            goals=sorted(ctx.goals), samples=ctx.samples,
            validate=ctx.validate, exhaustive=ctx.exhaustive,
            queries=solver.queries, solver_s=solver.solver_s,
            functions=sorted(prof.names), wall_s=time.time() - t0,
            reports=ctx.reports,
            cross=None, error=None)
        if cross is not None and cross.items:
            res['cross'] = _crosscheck(cross)
        return res
    except BaseException as e:   # HarnessError and anything unexpected
        return dict(cfg=cfg, error='%s: %s\n%s' % (
            type(e).__name__, e, traceback.format_exc()))


def _crosscheck(cross):
    d = tempfile.mkdtemp(prefix='vsym-cross-')
    try:
        path = os.path.join(d, 'q.smt2')
        with open(path, 'w') as f:
            f.write(cross.script())
        expected = [a for _, _, _, a in cross.items]
        out = dict(queries=len(expected), solvers={})
        for name, cmd in (('cvc5-1.0.3', ['cvc5', '--incremental']),
                          ('z3-5.1.0', ['z3-new'])):
            if shutil.which(cmd[0]) is None:
                out['solvers'][name] = 'not installed'
                continue
            t0 = time.time()
            ans = run_file(cmd, path, timeout=300)
            if ans is None:
                out['solvers'][name] = 'timeout'
                continue
            ans = [a for a in ans if a in ('sat', 'unsat', 'unknown')]
            agree = sum(1 for a, b in zip(ans, expected) if a == b)
            dis = sum(1 for a, b in zip(ans, expected)
                      if a != b and 'unknown' not in (a, b))
            out['solvers'][name] = dict(
                answered=len(ans), agree=agree, disagree=dis,
                wall_s=round(time.time() - t0, 2))
        return out
    finally:
        shutil.rmtree(d, ignore_errors=True)


# --------------------------------------------------------------------------

def load_known():
    p = os.path.join(VERIF, 'known_findings.json')
    if not os.path.exists(p):
        return []
    return json.load(open(p)).get('findings', [])


def run_check(H, tier, seed, workers=None):
    """Run all jobs of harness module H; returns exit code."""
    t0 = time.time()
    prop = H.PROPERTY
    jobs = H.jobs(tier)
    workers = workers or min(int(os.environ.get('VERIF_WORKERS', '16')),
                             max(1, len(jobs)))
    args = [(H.__name__, cfg, seed, tier) for cfg in jobs]
    if workers == 1 or len(jobs) == 1:
        results = [_run_job(a) for a in args]
    else:
        mp = multiprocessing.get_context('fork')
        with mp.Pool(workers) as pool:
            results = list(pool.imap_unordered(_run_job, args, chunksize=1))

    errors = [r for r in results if r.get('error')]
    for r in errors:
        print('HARNESS-ERROR property=%s job=%s\n%s' % (
            prop, r['cfg'].get('name'), r['error']))
    ok = [r for r in results if not r.get('error')]

    # merge
    stats = {}
    claim_counts = {}
    foreign = {}
    goals = set()
    functions = set()
    samples = []
    cex = []
    queries = 0
    solver_s = 0.0
    exhaustive = bool(ok) and not errors
    cross = dict(queries=0, solvers={})
    job_rows = []
    reports = {}
    for r in ok:
        for k, v in r.get('reports', {}).items():
            reports.setdefault(k, []).extend(v)
        for k, v in r['stats'].items():
            stats[k] = stats.get(k, 0) + v
        for k, v in r['claim_counts'].items():
            claim_counts[k] = claim_counts.get(k, 0) + v
        for k, v in r['foreign'].items():
            foreign[k] = foreign.get(k, 0) + v
        goals.update(r['goals'])
        functions.update(r['functions'])
        for s in r['samples'][:2]:
            if len(samples) < 8:
                samples.append(dict(job=r['cfg'].get('name'), **s))
        for c in r['counterexamples']:
            c['cfg'] = r['cfg']
            cex.append(c)
        queries += r['queries']
        solver_s += r['solver_s']
        exhaustive = exhaustive and r['exhaustive']
        if r['cross']:
            cross['queries'] += r['cross']['queries']
            for n, v in r['cross']['solvers'].items():
                if isinstance(v, dict):
                    acc = cross['solvers'].setdefault(
                        n, dict(answered=0, agree=0, disagree=0, wall_s=0))
                    if isinstance(acc, dict):
                        for kk in acc:
                            acc[kk] = round(acc[kk] + v[kk], 2)
                else:
                    cross['solvers'][n] = v
        job_rows.append(dict(
            name=r['cfg'].get('name'), paths=r['stats']['paths'],
            exhaustive=r['exhaustive'], wall_s=round(r['wall_s'], 2),
            failed=r['stats']['failed']))

    harness_problems = []
    # ---- trace validation: symbolic observations vs concrete re-run
    validated = 0
    for r in ok:
        for v in r['validate']:
            cctx, outcome = run_concrete(H.body, r['cfg'], v['model'],
                                         stop_on_fail=False)
            got = [[l, core._plain(x)] for l, x in cctx.observations]
            exp = v['observations']
            if outcome != 'completed' or not _obs_equal(got, exp):
                harness_problems.append(
                    'trace validation failed in job %s: model %s\n  symbolic %s'
                    '\n  concrete %s (%s)' % (r['cfg'].get('name'), v['model'],
                                              exp[:12], got[:12], outcome))
            else:
                validated += 1

    # ---- counterexamples: group, replay, classify
    known = [k for k in load_known() if k.get('property') == prop]
    groups = {}
    for c in cex:
        groups.setdefault((c['claim'], c['sig']), []).append(c)
    violations = []
    known_hits = []
    replay_dir = os.path.join(OUT, 'replays')
    for (claim, sig), items in sorted(groups.items()):
        reproduced = None
        for c in items[:4]:
            cctx, outcome = run_concrete(H.body, c['cfg'], c['model'], claim)
            if outcome == 'reproduced':
                f = cctx.failed[-1]
                reproduced = dict(c, observed=f)
                sig_c = f['sig']
                break
        if reproduced is None:
            harness_problems.append(
                'counterexample for %s [%s] did not reproduce on the real code '
                'with plain values (model %s, cfg %s)' % (
                    claim, sig, items[0]['model'], items[0]['cfg'].get('name')))
            continue
        kf = [k for k in known if k.get('status') == 'open'
              and k.get('claim') == claim and k.get('signature') == sig_c]
        rec = dict(
            property=prop, claim=claim, signature=sig_c,
            harness=H.__name__, config=reproduced['cfg'],
            model=reproduced['model'], info=core._plain(reproduced.get('info')),
            observed=reproduced['observed'], paths_with_this_signature=len(items))
        if kf:
            known_hits.append((kf[0], rec))
        else:
            os.makedirs(replay_dir, exist_ok=True)
            dg = hashlib.sha1(json.dumps(
                [claim, sig_c, rec['model'], rec['config']], sort_keys=True,
                default=str).encode()).hexdigest()[:10]
            path = os.path.join(replay_dir, '%s-%s.json' % (prop, dg))
            with open(path, 'w') as f:
                json.dump(rec, f, indent=1, default=str)
            violations.append((rec, path))

    # ---- vacuity: goals and claims reached
    missing_goals = [g for g in getattr(H, 'GOALS', {}).get(tier, [])
                     if g not in goals]
    missing_claims = [c for c in getattr(H, 'CLAIMS', {})
                      if claim_counts.get(c, 0) == 0
                      and c not in getattr(H, 'OPTIONAL_CLAIMS', ())]
    notes = []
    if ok and missing_goals:
        msg = 'reachability goals not witnessed: %s' % missing_goals
        # after a budget cut the witnesses may simply not have been reached
        (harness_problems if exhaustive else notes).append(msg)
    if ok and missing_claims:
        msg = 'claims never reached: %s' % missing_claims
        (harness_problems if exhaustive else notes).append(msg)
    if ok and not exhaustive and not errors:
        notes.append('budget cut: %d open alternatives left unexplored '
                     '(exhaustive=false in the evidence)'
                     % stats.get('open_alternatives', 0))
    if stats.get('undecided'):
        harness_problems.append('%d solver queries undecided'
                                % stats['undecided'])
    for n, v in cross['solvers'].items():
        if isinstance(v, dict) and v['disagree']:
            harness_problems.append('solver disagreement with %s: %s' % (n, v))

    wall = time.time() - t0
    # ---- evidence
    evidence = dict(
        property_id=prop, tier=tier, seed=seed, level='model_checking',
        coverage=dict(
            states=max(1, stats.get('nodes', 0) + stats.get('paths', 0)),
            transitions=max(1, stats.get('edges', 0)),
            traces_validated_against_impl=validated,
            samples=samples or [dict(note='no completed path sampled')],
            exhaustive=exhaustive,
            paths=stats.get('paths', 0),
            paths_completed=stats.get('completed', 0),
            obligations=stats.get('claims', 0),
            discharged=stats.get('discharged', 0),
            obligations_failed=stats.get('failed', 0),
            undecided=stats.get('undecided', 0),
            queries=queries, solver_s=round(solver_s, 2),
            cut_unwinding=stats.get('cut_unwinding', 0),
            cut_foreign_exception=stats.get('cut_foreign', 0),
            cut_infeasible=stats.get('cut_infeasible', 0),
            open_alternatives=stats.get('open_alternatives', 0),
            concretizations=stats.get('concretizations', 0),
            foreign_exceptions=foreign,
            claims={c: claim_counts.get(c, 0) for c in sorted(
                set(claim_counts) | set(getattr(H, 'CLAIMS', {})))},
            claim_text=getattr(H, 'CLAIMS', {}),
            goals_witnessed=sorted(goals),
            functions_encoded=sorted(functions),
            bounds=getattr(H, 'BOUNDS', {}).get(tier, ''),
            outside_bounds=getattr(H, 'OUTSIDE', ''),
            stubs=getattr(H, 'STUBS', []),
            jobs=sorted(job_rows, key=lambda j: str(j['name'])),
            crosscheck=cross if cross['queries'] else 'thorough tier only',
            solver='z3 4.8.12 (/usr/bin/z3 -in), QF_LIA',
            known_findings=[dict(claim=k['claim'], signature=k['signature'],
                                 paths=r['paths_with_this_signature'])
                            for k, r in known_hits],
            harness_problems=harness_problems,
            notes=notes,
            reports=reports,
            explanation=(
                'states = decision-tree nodes created (solver-decided branch '
                'points plus leaves); transitions = feasible branch edges; '
                'obligations = claim queries pc AND NOT claim, discharged = '
                'answered unsat; every path executes the real /repo code.'),
        ),
        assumptions=list(getattr(H, 'ASSUMPTIONS', [])),
        wall_s=round(wall, 2),
        violations=len(violations),
    )
    extra = getattr(H, 'extra_evidence', None)
    if extra:
        try:
            evidence['coverage'].update(extra(tier))
        except Exception as e:   # pragma: no cover
            harness_problems.append('extra evidence failed: %s' % e)
    os.makedirs(os.path.join(OUT, 'evidence'), exist_ok=True)
    with open(os.path.join(OUT, 'evidence', '%s.json' % prop), 'w') as f:
        json.dump(evidence, f, indent=1, default=str)

    # ---- report
    print('%s tier=%s jobs=%d paths=%d (completed %d, cut: unwinding %d, foreign '
          '%d, infeasible %d) claims=%d discharged=%d failed=%d queries=%d '
          'solver_s=%.1f wall=%.1fs exhaustive=%s validated_traces=%d' % (
              prop, tier, len(jobs), stats.get('paths', 0),
              stats.get('completed', 0), stats.get('cut_unwinding', 0),
              stats.get('cut_foreign', 0), stats.get('cut_infeasible', 0),
              stats.get('claims', 0), stats.get('discharged', 0),
              stats.get('failed', 0), queries, solver_s, wall, exhaustive,
              validated))
    for k, r in known_hits:
        print('KNOWN-FINDING: property=%s claim=%s signature=%s paths=%d %s' % (
            prop, r['claim'], r['signature'], r['paths_with_this_signature'],
            k.get('what', '')))
    for rec, path in violations:
        print('  claim %s signature %r model %s cfg %s' % (
            rec['claim'], rec['signature'], rec['model'],
            rec['config'].get('name')))
        print('VIOLATION property=%s replay=%s' % (prop, path))
    for p in harness_problems:
        print('HARNESS-PROBLEM property=%s %s' % (prop, p))
    for n in notes:
        print('NOTE property=%s %s' % (prop, n))
    if violations:
        return 1
    if errors or harness_problems:
        return 2
    return 0


def _obs_equal(a, b):
    if len(a) != len(b):
        return False
    for (la, va), (lb, vb) in zip(a, b):
        if la != lb:
            return False
        if va != vb:
            return False
    return True


def replay_file(H, path):
    rec = json.load(open(path))
    cctx, outcome = run_concrete(H.body, rec['config'], rec['model'],
                                 rec['claim'])
    print('replay %s: claim %s outcome %s' % (path, rec['claim'], outcome))
    print('  model    %s' % rec['model'])
    if cctx.failed:
        print('  observed %s' % json.dumps(cctx.failed[-1], default=str))
    if outcome == 'reproduced':
        print('VIOLATION property=%s replay=%s' % (rec['property'], path))
        return 1
    return 0
