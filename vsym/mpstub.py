"""In-process stand-in for `multiprocessing` (C13): the real ParallelProcess,
_handle_parallel_process, pre_send_command, Defer, Engine.end run unchanged on
top of it.

Contract modelled = documented behaviour of multiprocessing pipes/processes:
messages are delivered in order; `recv` with nothing sent blocks forever
(reported as HANG); `join` returns iff the target function returned.  The worker
runs the real `_handle_parallel_process` in a thread with strict hand-off (the
parent's `send` returns only when the worker is blocked in `recv` again or has
exited), so execution is deterministic.  Messages are passed by reference, not
pickled.  OS-level reaping is outside the model.

Pipe capacity: a pipe holds a bounded number of bytes, so a `send` of a large
result may block until the other side reads.  With RENDEZVOUS = True the
worker->parent direction has capacity 0 (the worst case of "bounded"): the
worker's `send` returns only when the parent has received the message, and a
`join` on a worker that is blocked sending is reported as HANG (the classic
join-before-drain deadlock).  With RENDEZVOUS = False the pipe is unbounded.
Code that is correct for every message size must pass under both.
"""
import queue
import threading

import vivarium.core.process as vp

RENDEZVOUS = False  # worker->parent pipe has capacity 0 (see above)
WORKERS = []        # every FakeProcess created since the last reset()
EVENTS = []         # ('send'|'recv'|'hang'|..., ...)


class Hang(RuntimeError):
    pass


class _Shared:
    def __init__(self):
        self.to_child = queue.Queue()
        self.to_parent = queue.Queue()
        self.idle = threading.Event()      # child is blocked in recv / exited
        self.done = threading.Event()
        self.child_exc = None
        self.sent_to_child = 0
        self.sent_to_parent = 0
        self.received_by_parent = 0
        self.commands = []
        self.closed = False
        self.thread = None
        self.blocked_in_send = False
        self.drained = threading.Event()


class ParentConn:
    def __init__(self, sh):
        self.sh = sh

    def send(self, obj):
        sh = self.sh
        if sh.done.is_set():
            EVENTS.append(('send-to-dead-worker', obj[0] if obj else None))
            raise BrokenPipeError('worker has exited (pipe closed)')
        sh.commands.append(obj[0])
        sh.sent_to_child += 1
        if sh.blocked_in_send:
            # the worker is blocked sending an earlier result: the command
            # waits in the pipe until the parent has read that result
            sh.to_child.put(obj)
            return
        sh.idle.clear()
        sh.to_child.put(obj)
        while not sh.idle.wait(timeout=2):
            if sh.thread is None or not sh.thread.is_alive():
                # interpreter shutdown or a dead worker thread
                raise BrokenPipeError('worker thread is gone')
        if sh.child_exc is not None:
            exc, sh.child_exc = sh.child_exc, None
            raise exc

    def recv(self):
        sh = self.sh
        if sh.to_parent.empty():
            EVENTS.append(('hang', 'parent recv with nothing sent'))
            raise Hang('HANG: parent recv() with no message in the pipe')
        sh.received_by_parent += 1
        obj = sh.to_parent.get()
        if sh.blocked_in_send:
            # release the worker and wait until it blocks again
            sh.idle.clear()
            sh.drained.set()
            while not sh.idle.wait(timeout=2):
                if sh.thread is None or not sh.thread.is_alive():
                    break
            if sh.child_exc is not None:
                exc, sh.child_exc = sh.child_exc, None
                raise exc
        return obj

    def close(self):
        pass


class ChildConn:
    def __init__(self, sh):
        self.sh = sh

    def send(self, obj):
        sh = self.sh
        sh.sent_to_parent += 1
        sh.to_parent.put(obj)
        if RENDEZVOUS:
            sh.drained.clear()
            sh.blocked_in_send = True
            sh.idle.set()               # control goes back to the parent
            sh.drained.wait()
            sh.blocked_in_send = False

    def recv(self):
        if self.sh.to_child.empty():
            self.sh.idle.set()
        # else: a command was queued while this worker was blocked sending;
        # it keeps running (the parent is waiting for it to block again)
        return self.sh.to_child.get()

    def close(self):
        self.sh.closed = True


class FakeProcess:
    def __init__(self, target, args):
        self.target = target
        self.args = args
        self.sh = args[0].sh
        self.joined = False
        self.started = False
        self.thread = None
        WORKERS.append(self)

    def start(self):
        sh = self.sh

        def run():
            try:
                self.target(*self.args)
            except BaseException as err:      # forwarded to the parent
                sh.child_exc = err
            finally:
                sh.done.set()
                sh.idle.set()
        self.thread = threading.Thread(target=run, daemon=True)
        sh.thread = self.thread
        self.started = True
        self.thread.start()
        sh.idle.wait()

    def join(self, timeout=None):
        if not self.sh.done.is_set():
            if self.sh.blocked_in_send:
                EVENTS.append(('hang', 'join on a worker blocked sending'))
                raise Hang('HANG: join() on a worker that is blocked sending '
                           'a result the parent has not received (full pipe)')
            EVENTS.append(('hang', 'join on a live worker'))
            raise Hang('HANG: join() on a worker that was not told to stop')
        self.thread.join()
        self.joined = True

    def close(self):
        pass

    def is_alive(self):
        return not self.sh.done.is_set()

    @property
    def told_to_end(self):
        return 'end' in self.sh.commands


class FakeContext:
    def Pipe(self):
        sh = _Shared()
        return ParentConn(sh), ChildConn(sh)

    def Process(self, target, args):
        return FakeProcess(target, args)


class FakeMultiprocessing:
    @staticmethod
    def get_context(method=None):
        return FakeContext()


_REAL = vp.multiprocessing


def _unraisable(args):
    # exceptions raised inside __del__ (e.g. ParallelProcess.__del__ -> end())
    EVENTS.append(('unraisable', '%s: %s' % (
        getattr(args.exc_type, '__name__', args.exc_type), args.exc_value)))


def install():
    import sys
    vp.multiprocessing = FakeMultiprocessing
    sys.unraisablehook = _unraisable


def uninstall():
    vp.multiprocessing = _REAL


def reset():
    """Stop leftover workers of earlier paths and forget them."""
    import gc
    gc.collect()          # let wrappers of earlier paths run their __del__ now
    for w in WORKERS:
        if w.started and not w.sh.done.is_set():
            try:
                w.sh.drained.set()
                w.sh.to_child.put(('end', None, None))
                w.thread.join(timeout=2)
            except Exception:
                pass
    del WORKERS[:]
    del EVENTS[:]
