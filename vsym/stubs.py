"""Stub user code shared by the harnesses: recording emitter, warm-ups."""
import networkx as nx

from vivarium.core.emitter import Emitter
from vivarium.core.registry import emitter_registry

# networkx compiles some dispatch wrappers lazily; do it once, outside any path
_g = nx.DiGraph()
_g.add_edge(1, 2)
list(nx.topological_generations(_g))

SINK = {'rows': [], 'config': [], 'hook': None, 'tags': {}}


class RecEmitter(Emitter):
    """A user emitter that keeps the raw dictionaries (symbolic values stay
    symbolic; nothing is serialized)."""

    def emit(self, data):
        if data['table'] == 'history':
            SINK['rows'].append(data['data'])
            SINK['tags'].setdefault(self.config.get('tag'), []).append(
                data['data'])
        else:
            SINK['config'].append(data['data'])
        if SINK['hook'] is not None:
            SINK['hook'](data)


emitter_registry.register('vsym_rec', RecEmitter)


def reset_sink(hook=None):
    SINK['rows'] = []
    SINK['config'] = []
    SINK['tags'] = {}
    SINK['hook'] = hook
    return SINK


def leaves(d, pre=()):
    """{path: leaf} of a nested dictionary (empty dicts are dropped)."""
    out = {}
    for k, v in d.items():
        if isinstance(v, dict):
            out.update(leaves(v, pre + (k,)))
        else:
            out[pre + (k,)] = v
    return out


# ---- the real RAMEmitter / orjson path: symbolic values are concretised by
# forking in a Serializer registered through the repo's public registry
from vivarium.core.registry import serializer_registry, Serializer
from vsym import core as _core


class _SymIntSerializer(Serializer):
    python_type = _core.SymInt

    def serialize(self, data):
        return int(data)


class _SymBoolSerializer(Serializer):
    python_type = _core.SymBool

    def serialize(self, data):
        return bool(data)


for _s in (_SymIntSerializer(), _SymBoolSerializer()):
    serializer_registry.register(_s.name, _s)


def walk_values(store, path=()):
    """{path: value} of all non-process leaves, by the harness's own traversal
    of Store.inner (independent of Store.get_value / emit_data)."""
    from vivarium.core.process import Process
    out = {}
    if store.inner:
        for k, ch in store.inner.items():
            out.update(walk_values(ch, path + (k,)))
    elif not isinstance(store.value, Process):
        out[path] = store.value
    return out


from vivarium.core.emitter import RAMEmitter


class RecRAMEmitter(RAMEmitter):
    """The real RAMEmitter (serialize_value / orjson path) plus the hook."""

    def emit(self, data):
        super().emit(data)
        if SINK['hook'] is not None:
            SINK['hook'](data)


emitter_registry.register('vsym_ram', RecRAMEmitter)
