"""Stub user code shared by the harnesses: recording emitter, warm-ups."""
import networkx as nx

from vivarium.core.emitter import Emitter
from vivarium.core.registry import emitter_registry

# networkx compiles some dispatch wrappers lazily; do it once, outside any path
_g = nx.DiGraph()
_g.add_edge(1, 2)
list(nx.topological_generations(_g))

SINK = {'rows': [], 'config': [], 'hook': None}


class RecEmitter(Emitter):
    """A user emitter that keeps the raw dictionaries (symbolic values stay
    symbolic; nothing is serialized)."""

    def emit(self, data):
        if data['table'] == 'history':
            SINK['rows'].append(data['data'])
        else:
            SINK['config'].append(data['data'])
        if SINK['hook'] is not None:
            SINK['hook'](data)


emitter_registry.register('vsym_rec', RecEmitter)


def reset_sink(hook=None):
    SINK['rows'] = []
    SINK['config'] = []
    SINK['hook'] = hook
    return SINK


def leaves(d, pre=()):
    """{path: leaf} of a nested dictionary (empty dicts are dropped)."""
    out = {}
    for k, v in d.items():
        if isinstance(v, dict):
            out.update(leaves(v, pre + (k,)))
        else:
            out[pre + (k,)] = v
    return out
