"""Kernel translator: Python AST of a leaf function -> SMT-LIB2 (bit-vectors and
IEEE-754 floating point), regenerated from the source on every run.

Python `int`  -> (_ BitVec 64), signed, with a stated magnitude bound (no
                 overflow inside the bound);
Python `float`-> (_ FloatingPoint 11 53);
int / 2^k     -> fp.div RNE (to_fp x) (to_fp 2^k)  (exact scaling, so it equals
                 CPython's correctly rounded int/int; other divisors rejected);
int(float)    -> fp.to_sbv RTZ;  x // c, x % c (c > 0 constant) -> floor
                 division / modulus on signed bit-vectors;
random.choice([True, False]) -> a fresh Bool; np.random.binomial(n, p) -> a
                 fresh integer r with 0 <= r <= n (library contract).
Anything else raises CannotEncode: the kernel is reported not encodable rather
than approximated.
"""
import ast
import inspect
import struct
import textwrap
import time

from .solver import Solver, SolverError

W = 64
FP = '(_ FloatingPoint 11 53)'
BV = '(_ BitVec 64)'


class CannotEncode(Exception):
    pass


def bv(n):
    return '(_ bv%d %d)' % (n % (1 << W), W)


def fp_const(x):
    bits = struct.unpack('>Q', struct.pack('>d', float(x)))[0]
    s = bits >> 63
    e = (bits >> 52) & 0x7ff
    m = bits & ((1 << 52) - 1)
    return '(fp #b%d #b%s #b%s)' % (s, format(e, '011b'), format(m, '052b'))


class Val:
    """A typed term: sort in {'int', 'float', 'bool', 'str', 'list', 'none'}"""

    def __init__(self, sort, term, items=None, py=None):
        self.sort = sort
        self.term = term
        self.items = items
        self.py = py           # concrete python constant if known


def to_float(v):
    if v.sort == 'float':
        return v.term
    if v.sort == 'int':
        return '((_ to_fp 11 53) RNE %s)' % v.term     # signed bv -> fp
    if v.sort == 'bool':
        return '(ite %s %s %s)' % (v.term, fp_const(1.0), fp_const(0.0))
    raise CannotEncode('to_float of %s' % v.sort)


def to_bool(v):
    if v.sort == 'bool':
        return v.term
    if v.sort == 'int':
        return '(not (= %s %s))' % (v.term, bv(0))
    if v.sort == 'float':
        return '(not (fp.isZero %s))' % v.term
    raise CannotEncode('truth value of %s' % v.sort)


class Translator:
    def __init__(self, func, arg_sorts, stubs=None):
        self.func = func
        self.src = textwrap.dedent(inspect.getsource(func))
        self.tree = ast.parse(self.src).body[0]
        self.arg_sorts = arg_sorts
        self.decls = []
        self.side = []          # side conditions (stub contracts)
        self.fresh = 0
        self.env0 = {}
        self.choices = []       # names of fresh stub variables, with kind
        for a in self.tree.args.args:
            n = a.arg
            if n not in arg_sorts:
                raise CannotEncode('no sort for argument %s' % n)
            srt = arg_sorts[n]
            self.decls.append('(declare-const %s %s)' % (
                n, BV if srt == 'int' else FP))
            self.env0[n] = Val(srt, n)

    def new(self, sort, hint):
        self.fresh += 1
        n = '%s!%d' % (hint, self.fresh)
        self.decls.append('(declare-const %s %s)' % (
            n, {'int': BV, 'float': FP, 'bool': 'Bool'}[sort]))
        return n

    # ---- expressions
    def expr(self, node, env):
        if isinstance(node, ast.Constant):
            c = node.value
            if isinstance(c, bool):
                return Val('bool', 'true' if c else 'false', py=c)
            if isinstance(c, int):
                return Val('int', bv(c), py=c)
            if isinstance(c, float):
                return Val('float', fp_const(c), py=c)
            if isinstance(c, str):
                return Val('str', None, py=c)
            if c is None:
                return Val('none', None)
            raise CannotEncode('constant %r' % (c,))
        if isinstance(node, ast.Name):
            if node.id in env:
                return env[node.id]
            raise CannotEncode('free name %s' % node.id)
        if isinstance(node, ast.List) or isinstance(node, ast.Tuple):
            return Val('list', None, items=[self.expr(e, env)
                                            for e in node.elts])
        if isinstance(node, ast.UnaryOp):
            v = self.expr(node.operand, env)
            if isinstance(node.op, ast.USub):
                if v.sort == 'int':
                    return Val('int', '(bvneg %s)' % v.term)
                if v.sort == 'float':
                    return Val('float', '(fp.neg %s)' % v.term)
            if isinstance(node.op, ast.Not):
                return Val('bool', '(not %s)' % to_bool(v))
            raise CannotEncode('unary %s' % ast.dump(node.op))
        if isinstance(node, ast.BinOp):
            return self.binop(node, env)
        if isinstance(node, ast.BoolOp):
            vals = [self.expr(v, env) for v in node.values]
            op = 'and' if isinstance(node.op, ast.And) else 'or'
            return Val('bool', '(%s %s)' % (op, ' '.join(to_bool(v)
                                                         for v in vals)))
        if isinstance(node, ast.Compare):
            if len(node.ops) != 1:
                raise CannotEncode('chained comparison')
            return self.compare(node.ops[0], self.expr(node.left, env),
                                self.expr(node.comparators[0], env))
        if isinstance(node, ast.Call):
            return self.call(node, env)
        raise CannotEncode('expression %s' % type(node).__name__)

    def binop(self, node, env):
        a = self.expr(node.left, env)
        b = self.expr(node.right, env)
        op = node.op
        if a.sort == 'bool':
            a = Val('int', '(ite %s %s %s)' % (a.term, bv(1), bv(0)))
        if b.sort == 'bool':
            b = Val('int', '(ite %s %s %s)' % (b.term, bv(1), bv(0)))
        if a.sort == 'int' and b.sort == 'int':
            if isinstance(op, ast.Add):
                return Val('int', '(bvadd %s %s)' % (a.term, b.term))
            if isinstance(op, ast.Sub):
                return Val('int', '(bvsub %s %s)' % (a.term, b.term))
            if isinstance(op, ast.Mult):
                if a.py is None and b.py is None:
                    raise CannotEncode('symbolic * symbolic')
                return Val('int', '(bvmul %s %s)' % (a.term, b.term))
            if isinstance(op, (ast.FloorDiv, ast.Mod)):
                if b.py is None or b.py <= 0:
                    raise CannotEncode('// or % by a non-constant')
                if b.py & (b.py - 1) == 0:
                    # power of two: floor division is an arithmetic shift,
                    # the (non-negative) modulus a bit mask
                    k = b.py.bit_length() - 1
                    if isinstance(op, ast.FloorDiv):
                        return Val('int', '(bvashr %s %s)' % (a.term, bv(k)))
                    return Val('int', '(bvand %s %s)' % (a.term, bv(b.py - 1)))
                q = '(bvsdiv %s %s)' % (a.term, b.term)
                r = '(bvsrem %s %s)' % (a.term, b.term)
                neg = '(and (bvslt %s %s) (not (= %s %s)))' % (
                    a.term, bv(0), r, bv(0))
                if isinstance(op, ast.FloorDiv):
                    return Val('int', '(ite %s (bvsub %s %s) %s)' % (
                        neg, q, bv(1), q))
                return Val('int', '(ite %s (bvadd %s %s) %s)' % (
                    neg, r, b.term, r))
            if isinstance(op, ast.Div):
                if b.py is None or b.py <= 0 or b.py & (b.py - 1):
                    raise CannotEncode('int / non-power-of-two')
                return Val('float', '(fp.div RNE %s %s)' % (
                    to_float(a), to_float(b)))
            raise CannotEncode('int op %s' % type(op).__name__)
        if {a.sort, b.sort} <= {'int', 'float'}:
            fa, fb = to_float(a), to_float(b)
            name = {ast.Add: 'fp.add', ast.Sub: 'fp.sub', ast.Mult: 'fp.mul',
                    ast.Div: 'fp.div'}.get(type(op))
            if name is None:
                raise CannotEncode('float op %s' % type(op).__name__)
            return Val('float', '(%s RNE %s %s)' % (name, fa, fb))
        raise CannotEncode('binop on %s, %s' % (a.sort, b.sort))

    def compare(self, op, a, b):
        if 'str' in (a.sort, b.sort) and a.sort != b.sort:
            # a number never equals a string
            if isinstance(op, ast.Eq):
                return Val('bool', 'false', py=False)
            if isinstance(op, ast.NotEq):
                return Val('bool', 'true', py=True)
            raise CannotEncode('ordering against a string')
        if a.sort == 'int' and b.sort == 'int':
            name = {ast.Eq: '=', ast.NotEq: 'distinct', ast.Lt: 'bvslt',
                    ast.LtE: 'bvsle', ast.Gt: 'bvsgt', ast.GtE: 'bvsge'}[
                        type(op)]
            return Val('bool', '(%s %s %s)' % (name, a.term, b.term))
        if {a.sort, b.sort} <= {'int', 'float', 'bool'}:
            fa, fb = to_float(a), to_float(b)
            if isinstance(op, ast.NotEq):
                return Val('bool', '(not (fp.eq %s %s))' % (fa, fb))
            name = {ast.Eq: 'fp.eq', ast.Lt: 'fp.lt', ast.LtE: 'fp.leq',
                    ast.Gt: 'fp.gt', ast.GtE: 'fp.geq'}[type(op)]
            return Val('bool', '(%s %s %s)' % (name, fa, fb))
        raise CannotEncode('compare %s with %s' % (a.sort, b.sort))

    def call(self, node, env):
        fn = ast.unparse(node.func)
        args = node.args
        if fn == 'isinstance':
            v = self.expr(args[0], env)
            types = ast.unparse(args[1])
            names = set(types.replace('(', ' ').replace(')', ' ')
                        .replace(',', ' ').split())
            is_int = v.sort in ('int', 'bool')
            hit = False
            for n in names:
                if n in ('int', 'np.integer') and is_int:
                    hit = True
                if n in ('float',) and v.sort == 'float':
                    hit = True
                if n in ('np.ndarray', 'Quantity', 'dict', 'list', 'str'):
                    pass
            return Val('bool', 'true' if hit else 'false', py=hit)
        if fn == 'int':
            v = self.expr(args[0], env)
            if v.sort == 'int':
                return v
            if v.sort == 'float':
                return Val('int', '((_ fp.to_sbv 64) RTZ %s)' % v.term)
            raise CannotEncode('int(%s)' % v.sort)
        if fn == 'float':
            if isinstance(args[0], ast.Constant) and \
                    isinstance(args[0].value, str):
                return Val('float', fp_const(float(args[0].value)),
                           py=float(args[0].value))
            return Val('float', to_float(self.expr(args[0], env)))
        if fn == 'abs':
            v = self.expr(args[0], env)
            if v.sort == 'float':
                return Val('float', '(fp.abs %s)' % v.term)
            return Val('int', '(ite (bvslt %s %s) (bvneg %s) %s)' % (
                v.term, bv(0), v.term, v.term))
        if fn == 'random.choice':
            lst = self.expr(args[0], env)
            if lst.sort == 'list' and [i.py for i in lst.items] == [True,
                                                                    False]:
                n = self.new('bool', 'choice')
                self.choices.append((n, 'random.choice'))
                return Val('bool', n)
            raise CannotEncode('random.choice of something else')
        if fn == 'np.random.binomial':
            n_ = self.expr(args[0], env)
            r = self.new('int', 'binomial')
            self.choices.append((r, 'np.random.binomial'))
            self.side.append('(and (bvsle %s %s) (bvsle %s %s))' % (
                bv(0), r, r, n_.term))
            return Val('int', r)
        raise CannotEncode('call %s' % fn)

    # ---- statements: returns list of (path condition, returned Val)
    def block(self, stmts, env, pc):
        env = dict(env)
        out = []
        for i, st in enumerate(stmts):
            if isinstance(st, ast.Expr) and isinstance(st.value, ast.Constant):
                continue      # docstring
            if isinstance(st, ast.Assign):
                if len(st.targets) != 1 or not isinstance(st.targets[0],
                                                          ast.Name):
                    raise CannotEncode('assignment target')
                env[st.targets[0].id] = self.expr(st.value, env)
                continue
            if isinstance(st, ast.Return):
                out.append((pc, self.expr(st.value, env)
                            if st.value is not None else Val('none', None)))
                return out, None
            if isinstance(st, ast.If):
                c = self.expr(st.test, env)
                ct = to_bool(c)
                rest = stmts[i + 1:]
                if c.py is True:
                    o, e2 = self.block(st.body + rest, env, pc)
                    return out + o, e2
                if c.py is False:
                    o, e2 = self.block(st.orelse + rest, env, pc)
                    return out + o, e2
                o1, _ = self.block(st.body + rest, env, pc + [ct])
                o2, _ = self.block(st.orelse + rest, env,
                                   pc + ['(not %s)' % ct])
                return out + o1 + o2, None
            if isinstance(st, ast.Expr) and isinstance(st.value, ast.Call) \
                    and isinstance(st.value.func, ast.Attribute) \
                    and isinstance(st.value.func.value, ast.Name) \
                    and st.value.func.attr == 'reverse' and not st.value.args:
                # in-place reversal of a list display held in a local
                name = st.value.func.value.id
                lst = env.get(name)
                if lst is None or lst.sort != 'list':
                    raise CannotEncode('reverse() of a non-list')
                env[name] = Val('list', None, items=list(reversed(lst.items)))
                continue
            if isinstance(st, ast.Raise):
                out.append((pc, Val('raise', None)))
                return out, None
            raise CannotEncode('statement %s' % type(st).__name__)
        out.append((pc, Val('none', None)))
        return out, env

    def paths(self):
        out, _ = self.block(self.tree.body, self.env0, [])
        return out


def decide(tr, assumptions, prop_builder, timeout_ms=120000,
           cmd=('/usr/bin/z3', '-in')):
    """For every return path of the translated function ask
    assumptions AND side AND pc AND NOT prop(result).
    prop_builder(result Val) -> SMT Bool term (or None: path must be
    infeasible under the assumptions)."""
    t0 = time.time()
    s = Solver(cmd=cmd, logic=None, timeout_ms=timeout_ms)
    results = []
    try:
        paths = tr.paths()       # creates the stub variables
        for d in tr.decls:
            s.send(d)
        for a in list(assumptions) + tr.side:
            s.send('(assert %s)' % a)
        for pc, val in paths:
            s.send('(push)')
            for c in pc:
                s.send('(assert %s)' % c)
            prop = prop_builder(val)
            if prop is not None:
                s.send('(assert (not %s))' % prop)
            r = s.check()
            model = None
            if r == 'sat':
                names = [d.split()[1] for d in tr.decls]
                s.send('(get-model)')
                s.p.stdin.flush()
                txt = ''
                depth = 0
                while True:
                    line = s._readline()
                    txt += line
                    depth += line.count('(') - line.count(')')
                    if depth <= 0 and txt.strip():
                        break
                model = txt
            s.send('(pop)')
            results.append(dict(path=' and '.join(pc) or 'true',
                                returns=val.sort, answer=r, model=model))
    finally:
        s.close()
    return dict(results=results, queries=s.queries,
                solver_s=round(s.solver_s, 3), wall_s=round(time.time() - t0, 3))


def model_values(model_text, tr):
    """Parse a z3 (get-model) answer into python values for the declared
    constants (bit-vectors as signed ints, floats as python floats)."""
    from .solver import parse_sexpr
    vals = {}
    m = parse_sexpr(model_text)
    for ent in m:
        if not isinstance(ent, list) or ent[0] != 'define-fun':
            continue
        name, value = ent[1], ent[-1]
        vals[name] = _value(value)
    return vals


def _value(v):
    if isinstance(v, str):
        if v in ('true', 'false'):
            return v == 'true'
        if v.startswith('#x'):
            n = int(v[2:], 16)
            bits = 4 * (len(v) - 2)
            return n - (1 << bits) if n >> (bits - 1) else n
        if v.startswith('#b'):
            n = int(v[2:], 2)
            bits = len(v) - 2
            return n - (1 << bits) if n >> (bits - 1) else n
        raise SolverError('value %r' % v)
    if v[0] == 'fp':
        s, e, m = (int(x[2:], 2 if x.startswith('#b') else 16) for x in v[1:])
        ebits = len(v[2]) - 2 if v[2].startswith('#b') else 4 * (len(v[2]) - 2)
        mbits = len(v[3]) - 2 if v[3].startswith('#b') else 4 * (len(v[3]) - 2)
        bits = (s << 63) | (e << 52) | m
        return struct.unpack('>d', struct.pack('>Q', bits))[0]
    if v[0] == '_' and v[1] in ('+zero', '-zero', '+oo', '-oo', 'NaN'):
        return {'+zero': 0.0, '-zero': -0.0, '+oo': float('inf'),
                '-oo': float('-inf'), 'NaN': float('nan')}[v[1]]
    if v[0] == '_' and v[1].startswith('bv'):
        n = int(v[1][2:])
        bits = int(v[2])
        return n - (1 << bits) if n >> (bits - 1) else n
    raise SolverError('value %r' % (v,))


def crosscheck(tr_factory, assumptions, prop_builder, expected, timeout=300):
    """Re-decide the kernel's path queries with cvc5 and z3 5.x from a
    standalone script; returns {solver: dict(answers=..., agree=bool)}."""
    import os
    import shutil
    import tempfile
    from .solver import run_file
    tr = tr_factory()
    paths = tr.paths()
    lines = ['(set-logic ALL)']
    lines += tr.decls
    for a in list(assumptions) + tr.side:
        lines.append('(assert %s)' % a)
    for pc, val in paths:
        lines.append('(push 1)')
        for c in pc:
            lines.append('(assert %s)' % c)
        prop = prop_builder(val)
        if prop is not None:
            lines.append('(assert (not %s))' % prop)
        lines.append('(check-sat)')
        lines.append('(pop 1)')
    d = tempfile.mkdtemp(prefix='vsym-kern-')
    out = {}
    try:
        path = os.path.join(d, 'k.smt2')
        with open(path, 'w') as f:
            f.write('\n'.join(lines) + '\n')
        for name, cmd in (('cvc5-1.0.3', ['cvc5', '--incremental']),
                          ('z3-5.1.0', ['z3-new'])):
            if shutil.which(cmd[0]) is None:
                out[name] = 'not installed'
                continue
            ans = run_file(cmd, path, timeout=timeout)
            if ans is None:
                out[name] = 'timeout'
                continue
            ans = [a for a in ans if a in ('sat', 'unsat', 'unknown')]
            out[name] = dict(answers=ans, agree=ans == list(expected))
    finally:
        shutil.rmtree(d, ignore_errors=True)
    return out
