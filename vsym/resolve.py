"""Harness-side reference models, written independently of the code under
test: lexical path resolver, store traversal."""


def resolve(parent, path):
    """Absolute node path of `path` taken relative to compartment `parent`.
    '..' pops; returns None when the path climbs above the root."""
    out = list(parent)
    for seg in path:
        if seg == '..':
            if not out:
                return None
            out.pop()
        else:
            out.append(seg)
    return tuple(out)


_RAISE = object()


def get(d, path, default=_RAISE):
    """Value at `path`; a missing key raises KeyError unless a default is
    given (the class KeyError itself may be passed as a sentinel default)."""
    for k in path:
        if not isinstance(d, dict) or k not in d:
            if default is _RAISE:
                raise KeyError(path)
            return default
        d = d[k]
    return d


def put(d, path, v):
    for k in path[:-1]:
        d = d.setdefault(k, {})
    d[path[-1]] = v
    return d


def store_nodes(store, path=()):
    """{path: Store node} over the whole tree (own traversal of .inner)."""
    out = {path: store}
    for k, ch in store.inner.items():
        out.update(store_nodes(ch, path + (k,)))
    return out


def nest(d, where):
    for seg in reversed(where):
        d = {seg: d}
    return d
