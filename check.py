#!/venv/bin/python
"""Entry point.   check.py <ID> --tier quick|thorough   |   check.py <ID> --replay <file>

Exit 0: every explored path decided and held (KNOWN-FINDING lines allowed);
exit 1: reproduced counterexample not listed in known_findings.json;
exit 2: the machinery itself failed (never reported as success or as violation).
"""
import argparse
import importlib
import os
import sys

if os.environ.get('PYTHONHASHSEED') != '0':
    os.environ['PYTHONHASHSEED'] = '0'
    os.execv(sys.executable, [sys.executable] + sys.argv)

sys.dont_write_bytecode = True
HERE = os.path.dirname(os.path.abspath(__file__))
REPO = os.environ.get('VERIF_REPO', '/repo')
sys.path.insert(0, HERE)
sys.path.insert(0, REPO)
sys.setrecursionlimit(10000)


def main():
    ap = argparse.ArgumentParser()
    ap.add_argument('prop')
    ap.add_argument('--tier', default=os.environ.get('VERIF_TIER', 'quick'),
                    choices=['quick', 'thorough'])
    ap.add_argument('--replay')
    ap.add_argument('--workers', type=int)
    a = ap.parse_args()
    import vivarium
    if not vivarium.__file__.startswith(REPO + '/'):
        print('HARNESS-ERROR vivarium imported from %s, not %s' % (
            vivarium.__file__, REPO))
        return 2
    seed = int(os.environ.get('VERIF_SEED', '0') or 0)
    H = importlib.import_module('harness.%s' % a.prop.lower())
    from vsym import run
    if a.replay:
        return run.replay_file(H, a.replay)
    return run.run_check(H, a.tier, seed, a.workers)


if __name__ == '__main__':
    code = main()
    sys.stdout.flush()
    sys.stderr.flush()
    # skip interpreter finalisation: worker threads of the transport stub
    # (C13) are daemon threads and must not be waited for in __del__
    os._exit(code)
