#!/bin/bash
# intake_seed.sh NAME PROP: take patch_NAME.diff / demo_NAME.py from the scratch
# worktree /tmp/wt_NAME, confirm the seed in a fresh worktree, store it, and run
# the property's check against it (scratch worktree; /repo untouched).
S=$1; P=$2
cp /tmp/wt_$S/patch_$S.diff /tmp/p_$S.diff && cp /tmp/wt_$S/demo_$S.py /tmp/demo_$S.py || exit 2
git -C /repo worktree remove --force /tmp/wt_$S
/verif/tools/confirm_seed.sh $S /tmp/p_$S.diff /tmp/demo_$S.py 2>&1 | tail -1
[ -d /verif/seeded/$S ] || exit 1
[ -f /verif/seeded/$S/meta.json ] || /venv/bin/python -c "
import json; json.dump(dict(property='$P', breaks='$P', needs='(to be filled in)'), open('/verif/seeded/$S/meta.json','w'))"
/verif/tools/seed_regression.sh $S
