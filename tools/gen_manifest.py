#!/venv/bin/python
"""Regenerates MANIFEST.json from the table below (keeps it schema-valid)."""
import json
import os
import sys

HERE = os.path.dirname(os.path.dirname(os.path.abspath(__file__)))
TECH = ('bounded symbolic execution of the real Python code (vsym proxies, DFS '
        're-execution) with z3 deciding every branch and every claim query; '
        'counterexamples replayed concretely')

# property -> (design section, level text, level note)
CHECKS = {}
NOT_APPLICABLE = {}


def check(pid, text, note, technique=TECH):
    CHECKS[pid] = (text, note, technique)


def na(pid, reason):
    NOT_APPLICABLE[pid] = reason


exec(open(os.path.join(HERE, 'tools', 'manifest_table.py')).read())


def main():
    props = [json.loads(l)['id'] for l in open(os.path.join(HERE,
                                                            'properties.jsonl'))]
    checks = []
    for pid in props:
        if pid in CHECKS:
            text, note, tech = CHECKS[pid]
            checks.append(dict(
                property_id=pid,
                quick_cmd='/venv/bin/python /verif/check.py %s --tier quick' % pid,
                thorough_cmd='/venv/bin/python /verif/check.py %s --tier thorough' % pid,
                evidence_file='/verif/evidence/%s.json' % pid,
                replay_cmd_template='/venv/bin/python /verif/check.py %s --replay {path}' % pid,
                engine='vsym',
                level_claimed=dict(category='model_checking', text=text,
                                   design_ref='DESIGN.md section 7 / %s' % pid),
                level_note=note, technique=tech))
    nas = [dict(property_id=p, reason=NOT_APPLICABLE.get(
        p, 'check not built yet in this session (planned, see DESIGN.md section 7)'))
        for p in props if p not in CHECKS]
    m = dict(
        version=1,
        setup_cmd='/venv/bin/python /verif/tools/setup.py',
        hooks=dict(
            guard='VIVARIUM_CORE_VERIF',
            enable='no hooks: checks import /repo/vivarium as is and observe it '
                   'through public extension points (user processes, updaters, '
                   'emitters) and instance-level wrappers',
            baseline_off_cmd='cd /repo && /venv/bin/python -m pytest -ra -q -p '
                             'no:cacheprovider --timeout=900 '
                             '--continue-on-collection-errors',
            source_commits=[], add_only=True),
        engines=[dict(
            name='vsym', path='/verif/vsym',
            serves_properties=sorted(CHECKS),
            kind_free_text='dynamic symbolic execution of the real vivarium code '
                           'by operator-overloading proxies; every branch on a '
                           'symbolic value and every claim is an SMT query '
                           '(z3 4.8.12 over one -in pipe per worker, QF_LIA); '
                           'exhaustive DFS over feasible paths within stated '
                           'bounds; counterexample models replayed with plain '
                           'values; cvc5 / z3 5.1 re-decide claim queries in the '
                           'thorough tier')],
        checks=checks,
        not_applicable=nas,
        notes='Exit codes: 0 held (KNOWN-FINDING lines allowed), 1 VIOLATION, 2 '
              'machinery failure (never success). Known findings: '
              '/verif/known_findings.json.')
    with open(os.path.join(HERE, 'MANIFEST.json'), 'w') as f:
        json.dump(m, f, indent=1)
    import jsonschema
    jsonschema.validate(m, json.load(open('/root/.vp/MANIFEST.schema.json')))
    print('MANIFEST.json: %d checks, %d not applicable' % (len(checks), len(nas)))


if __name__ == '__main__':
    sys.exit(main())
