#!/usr/bin/env python3
"""Prepare a seeded-change task for a sub-agent: a scratch worktree of /repo
under /tmp and a prompt that holds ONLY the property text (nothing from
/verif), the list of what earlier seeded changes needed (so that a new
mechanism is looked for) and where to look.

usage: mk_seed_prompt.py NAME PROP   (e.g. C01g C01) -> /tmp/prompts/NAME.txt
"""
import glob
import json
import os
import subprocess
import sys

HERE = os.path.dirname(os.path.dirname(os.path.abspath(__file__)))

KNOWN = {
    'C03': "One known, already-documented weakness does NOT count: a process with an ADAPTIVE timestep that is re-polled after having been deferred and answers a shorter timestep can make the clock step backwards or stall. Your change must break the property for processes with constant timesteps, and with times on the integer grid or on exact binary fractions (no decimal float noise such as 0.1 + 0.2).",
    'C01': "Times in your demonstration must be on the integer grid or exact binary fractions (no decimal float noise such as 0.1 + 0.2), and timesteps constant per process (adaptive re-polling after a deferral is a known weakness that does not count).",
    'C02': "Times in your demonstration must be on the integer grid or exact binary fractions (no decimal float noise such as 0.1 + 0.2), and timesteps constant per process (adaptive re-polling after a deferral is a known weakness that does not count).",
    'C09': "One known, already-documented weakness does NOT count: a _delete entry given as a path tuple (instead of a plain key) deletes nothing.",
    'C10': "Two known, already-documented weaknesses do NOT count: (1) dividing a compartment WITHOUT giving explicit processes for the daughters while one of the mother's processes has a command pending raises RuntimeError '... is still pending'; (2) moving a compartment whose process has an update in flight raises the same RuntimeError.",
    'C13': "Real OS processes are started for parallel processes (multiprocessing, start method forkserver), so keep your demo small and always call engine.end() in a finally block. One known, already-documented weakness does NOT count: MOVING a compartment whose process has an update in flight fails with RuntimeError '... is still pending'.",
}

HINTS = {
    'C02': "the timestep handed to next_update in Engine._run_update / run_for (the 'interval' computed from the front and the end time when force_complete cuts it short), Engine._check_complete, the front entry of a process after a quiet poll, a process entering later through _generate/_divide (front created at the current time), two run_for calls without force_complete followed by update(), timesteps larger than the whole run, global_time_precision rounding of front times",
    'C05': "_StepGraph (add / remove / get_execution_layers, _sequential_steps vs graph nodes), Engine._add_step_path for steps nested in compartments and dependency paths, Engine.run_steps being called at construction and after each batch (and not after passes in which nothing was applied), steps given with is_deriver / legacy derivers mixed with flow steps, a step whose update is empty, Engine._process_update with timestep 0, cached layers after a structural change",
    'C06': "Store.topology_state / view construction (schema_topology, outer_path, _path dictionaries with several renamed variables, ports wired to a leaf), inverse_topology for '_path' ports and for nested schemas two levels deep, normalize_path use with '..' after a name, glob ports wired through '_path', a port wired to the root (), two ports where one is wired to a sub-store of the other",
    'C07': "Store.build_topology_views / _topology_view caching, Store.view_values / schema_topology for glob ports with nested sub-schemas and for '_output' ports, when the views are rebuilt (Engine.apply_update's view_expire, Store.apply_update return values for _add/_delete/_move/_divide/_generate nested inside a larger update), states passed to calculate_timestep vs next_update, a process whose port is wired to a store that is deleted and re-created",
    'C10': "Engine._add_process_path / _add_step_path for entities arriving through _generate/_divide/_move, Engine._delete_path (published dictionaries, process_paths, _step_paths), Engine._remove_deleted_processes and the front, the front entry of a newly created process, Store.get_processes / get_steps / get_topology / get_flow (used to publish), processes nested two compartments deep, a compartment deleted and re-created under the same key at the same instant, _StepGraph.remove",
    'C11': "the divider functions in vivarium/core/registry.py (divide_split for odd ints / negative ints / floats / tuples, divide_binomial, divide_split_dict ordering, divide_set deep copies), Store.divide_value for branches with a branch-level '_divider' and for dividers given as dicts with 'topology' / 'config', how daughters' initial_state is merged with the divided state (nested branches), process instances and parameters copied for daughters when none are listed, daughters sharing mutable state or schema objects, a second generation",
    'C17': "vivarium/library/topology.py (get_in with defaults for falsy values, assoc_path with an empty path, update_in creating missing branches, delete_in on the last key of a branch, dict_to_paths / paths_to_dict for empty dicts and single keys, normalize_path, convert_path_style, hierarchy_depth), Store.get_path / path_for / path_to / depth, Store.get_in, paths given as strings vs tuples",
    'C19': "vivarium/processes/timeline.py (TimelineProcess.__init__ sorting/merging of events and of the 'paths' / time handling, next_update's pop-while-due loop and its comparison with global time, calculate_timestep returning the time to the next event, events at time 0, events after the end of the run), vivarium/core/composition.py add_timeline / the ports it declares for nested variable paths, processes with a time_step that does not divide event times",

    'C01': "anything on the path an update takes from next_update to the store: Engine._run_update / _process_update, Defer and its functions, invert_topology for ports wired with '..' or '_path', Engine.apply_update, the list of due updates in run_for and the order in which it is applied, Engine.front entries ('time', 'update') across two run_for calls, an engine with initial_global_time != 0, processes nested in compartments, a process whose update is an empty dict or None",
    'C03': "the scheduler loop of run_for for constant timesteps: the computation of full_step, the bound that keeps the clock from passing waiting processes, what happens when run_for is called with an interval shorter than every timestep, two successive run_for calls with force_complete False then True, an engine with initial_global_time != 0, emit_step different from 1, global_time_precision, Engine.update vs run_for",
    'C04': "Engine._process_state and the state a process started at the same instant receives, Store.view_values / topology views for ports wired through '..' or sharing a sub-store, schema_topology, the application of a batch of updates that finish at the same time (order of the list, a process listed twice), a process deleted by another update of the same batch, three processes with equal timesteps where one is nested in a compartment",
    'C08': "Store.apply_update for leaf nodes (updater lookup by name in the registry vs function, per-update '_updater' given as a dict with 'updater' and 'port_mapping', '_reduce'), update_set / update_merge / update_null / update_nonnegative_accumulate / update_dict_value on None or missing states, the order in which several updates to ONE leaf in one batch are folded, leaves whose current value is a list or a numpy array, a leaf with '_units' receiving a plain number",
    'C09': "Store.move with an 'update' entry or a target several levels away, Store.insert/_generate at a path several levels below the addressed store ('path' entry), Store.divide when a daughter key equals the mother key or when daughters are given 'initial_state' for a nested branch, Store.delete of a nested child followed by _add of the same key in the same update, identity and values of untouched sibling nodes, Store.add with a state for a branch that partly exists",
    'C12': "Engine._emit_store_data / emit_data and the 'time' it stamps, emit_step > 1 combined with run_for calls that end between emit times, emitting when several processes end at the same instant (one row per time), Store.emit_data for a branch whose children all have _emit False (empty dicts), for '_output' ports, for leaves holding numpy values or tuples, serializers chosen by type, the configuration record's contents for nested processes, Engine(emit_config=False / emit_topology / emit_processes)",
    'C13': "the ParallelProcess command protocol (pre_send_command / send_command / get_command_result / run_command) and which attributes are cached or forwarded (parameters, name, schema_override, timestep, is_deriver), _handle_parallel_process's dispatch of commands with args/kwargs, Process.__getstate__/__setstate__ used when the instance is shipped to the worker, Engine._parallelize_processes for steps with _parallel, ParallelProcess.end being idempotent, Engine.end for nested compartments, a parallel process that returns numpy or units values",
    'C15': "Store._apply_config / _check_default / _check_schema for a variable declared by two processes (same default given as 0 and 0.0, '_emit' / '_updater' / '_divider' given by one only, or differing), Store.generate / set_value / apply_defaults for a branch given in initial_state that no process declares, Process.default_state / Composite.default_state / Composer.initial_state merging, Engine(initial_state=...) overriding a Composite's 'state', '_value' in a schema, initial state for a glob ('*') port's children",
    'C16': "Composer.generate(config, path) with a path several levels deep, generate_processes / generate_steps / generate_flow / generate_topology receiving the merged config (Composer.defaults deep-merged with the override, nested dict entries), Composite.merge given path and a composite holding '_schema' overrides, Composite.generate_store, Composer.initial_state for nested composites, Composite.__setitem__/get_parameters, two generate() calls on one Composer instance with different configs",
    'C18': "timeseries_from_data / get_timeseries for variables that first appear at a later time (padding) or disappear, path_timeseries_from_data / path_timeseries_from_embedded_timeseries for nested branches sharing a prefix, the '__time__'/'time' key handling, get_history_data_db-like assembly helpers (assemble_data), RAMEmitter.get_data with a query of several paths or a path to a leaf, get_data_unitless / get_data_deserialized on lists and None, emit rows whose time is a float equal to an int (2.0 vs 2)",
}



def main():
    name, prop = sys.argv[1], sys.argv[2]
    props = {}
    for line in open(os.path.join(HERE, 'properties.jsonl')):
        if line.strip():
            p = json.loads(line)
            props[p['id']] = p
    p = props[prop]
    avoid = []
    for m in sorted(glob.glob(os.path.join(HERE, 'seeded', '*', 'meta.json'))):
        meta = json.load(open(m))
        if meta.get('property') == prop and meta.get('needs'):
            avoid.append(' - ' + meta['needs'])
    wt = '/tmp/wt_' + name
    if not os.path.isdir(wt):
        subprocess.check_call(['git', '-C', '/repo', 'worktree', 'add',
                               '--detach', wt, 'HEAD'],
                              stdout=subprocess.DEVNULL)
    q = p.get('quantifier') or {}
    qtext = q.get('text', '') if isinstance(q, dict) else str(q)
    text = f'''You are helping test a verification suite by producing a realistic, subtle bug ("seeded change") in a Python project. Work ONLY inside the scratch git worktree {wt} (a checkout of the vivarium-core repository, a discrete-event simulation engine). Do NOT touch /repo or /verif or any other directory (other than creating small files inside {wt}). Do not commit anything. NEVER use `git stash` (stashes are shared between worktrees and other people are working in sibling worktrees right now); to test without your change use `git diff -- vivarium > {wt}/patch_{name}.diff && git apply -R {wt}/patch_{name}.diff`, and `git apply {wt}/patch_{name}.diff` to put it back.

IMPORTANT environment notes:
- Use the interpreter /venv/bin/python. The package `vivarium` is installed in develop mode pointing at another checkout, so ALWAYS run with the worktree first on the path: `cd {wt} && PYTHONPATH={wt} /venv/bin/python ...` and verify once that `import vivarium; print(vivarium.__file__)` prints a path under {wt}.
- There is no network.
- The existing test suite is run with: `cd {wt} && PYTHONPATH={wt} /venv/bin/python -m pytest -q -p no:cacheprovider --timeout=900 -n 8` (takes about 90 seconds; 3 tests in vivarium/experiments/large_experiment.py fail on the unmodified tree because they need MongoDB - ignore those three; everything else must still pass with your change).

The property your change must BREAK (this is the only thing you know about what is being verified):

"{p['title']}. {p['statement']}"
Quantifier: {qtext}

{KNOWN.get(prop, '')}

Other people have already produced changes for this property; do NOT reuse their ideas (each line says what their change needed in order to manifest):
{chr(10).join(avoid)}
Find a genuinely different mechanism, in a different function if possible.

Your task: make a small source change to the vivarium package in the worktree that breaks this property, but that
 (a) still imports/compiles,
 (b) keeps the whole existing test suite passing (except the 3 MongoDB tests that already fail), and
 (c) needs something SPECIFIC to manifest - look for it in {HINTS[prop]}; it should need a particular input shape, value (think of falsy values, empty containers, equal times), sequence of operations or interleaving - NOT something that the most ordinary use would expose at once. It should look like a plausible programmer mistake or an "optimisation"/refactoring gone wrong, not like sabotage (no special-casing of magic values, no random behaviour).

Then write a demonstration: a small standalone Python script {wt}/demo_{name}.py (using only the public API) that exits with status 1 (printing what went wrong) when run against your changed worktree and exits 0 when run against the unchanged code. Verify both (with `git apply -R` / `git apply` as described above, not with git stash).

Finally make sure {wt}/patch_{name}.diff holds the final `git diff -- vivarium` (only changes under vivarium/, not the demo).

Separately: if, while exploring, you meet behaviour of the UNMODIFIED tree that already seems to violate the property (not one of the known weaknesses listed above), do not build your change on it, but do report it at the end under a heading 'Pre-existing', with a minimal script (saved as {wt}/preexisting_{name}.py) that shows it on the unmodified code. Only report what you actually ran.

Report back briefly: (1) the diff, (2) the path of the demo script, (3) what exactly the change needs in order to manifest, (4) the test-suite summary line with the change applied and the demo result with and without the change. Leave the change APPLIED in the worktree when you finish.'''
    os.makedirs('/tmp/prompts', exist_ok=True)
    open('/tmp/prompts/%s.txt' % name, 'w').write(text)
    print('/tmp/prompts/%s.txt' % name)


if __name__ == '__main__':
    main()
