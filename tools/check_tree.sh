#!/bin/bash
# check_tree.sh <tree> [IDs...]: run the quick checks against another checkout
# of the repository (e.g. a scratch worktree) without touching /repo or the
# evidence under /verif.
TREE=$1; shift
IDS=${@:-C01 C02 C03 C04 C05 C06 C07 C08 C09 C10 C11 C12 C13 C15 C16 C17 C18 C19}
OUT=$(mktemp -d /tmp/verif-out-XXXX)
for ID in $IDS; do
  VERIF_REPO=$TREE VERIF_OUT=$OUT /venv/bin/python /verif/check.py $ID --tier ${TIER:-quick} 2>&1 \
    | grep -v "^Exception ignored\|^Traceback\|^  File\|^    \|^RuntimeError\|^BrokenPipe\|^KNOWN" | cut -c1-330 | head -${LINES_PER:-4}
  echo "exit=${PIPESTATUS[0]} ($ID)"
done
rm -rf $OUT
