#!/venv/bin/python
"""Run the repository's pinned test command (guard off) and compare with
/root/.vp/BASELINE.json.  Usage: run_baseline.py [-n WORKERS] [pytest args]"""
import json
import os
import subprocess
import sys
import tempfile
import xml.etree.ElementTree as ET

REPO = os.environ.get('VERIF_REPO', '/repo')


def main():
    args = sys.argv[1:]
    fd, xml = tempfile.mkstemp(suffix='.junit.xml')
    os.close(fd)
    env = dict(os.environ)
    env.pop('VIVARIUM_CORE_VERIF', None)
    cmd = ['/venv/bin/python', '-m', 'pytest', '-ra', '-q', '-p',
           'no:cacheprovider', '--timeout=900',
           '--continue-on-collection-errors', '--junitxml=' + xml] + args
    r = subprocess.run(cmd, cwd=REPO, env=env, capture_output=True, text=True)
    passed = set()
    failed = set()
    for tc in ET.parse(xml).getroot().iter('testcase'):
        tid = '%s::%s' % (tc.get('classname'), tc.get('name'))
        bad = any(ch.tag in ('failure', 'error', 'skipped') for ch in tc)
        (failed if bad else passed).add(tid)
    os.unlink(xml)
    base = json.load(open('/root/.vp/BASELINE.json'))
    stable = set(base['stable_pass'])
    missing = sorted(stable - passed)
    print('passed %d, failed %d, baseline %d, baseline tests not passing: %d' % (
        len(passed), len(failed), len(stable), len(missing)))
    for m in missing:
        print('  NOT PASSING:', m)
    if missing:
        print(r.stdout[-6000:])
    return 1 if missing else 0


if __name__ == '__main__':
    sys.exit(main())
