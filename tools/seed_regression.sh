#!/bin/bash
# seed_regression.sh [names...]: apply every confirmed seeded change to a fresh
# scratch worktree of /repo HEAD and run the check of the property it breaks;
# every one must end with exit 1 (VIOLATION).  /repo itself is not touched.
cd /verif/seeded
NAMES=${@:-$(ls)}
for S in $NAMES; do
  if /venv/bin/python -c "import json,sys;sys.exit(0 if json.load(open('/verif/seeded/$S/meta.json')).get('retired') else 1)"; then
    echo "$S: retired (see meta.json)"; continue
  fi
  P=$(/venv/bin/python -c "import json;m=json.load(open('/verif/seeded/$S/meta.json'));print(m.get('check', m['property']))")
  WT=/tmp/sr_$S
  git -C /repo worktree remove --force $WT 2>/dev/null
  git -C /repo worktree add -q --detach $WT HEAD
  if ! git -C $WT apply /verif/seeded/$S/patch.diff 2>/dev/null; then
    echo "$S ($P): PATCH-DOES-NOT-APPLY to HEAD"
  else
    OUT=$(mktemp -d /tmp/verif-out-XXXX)
    VERIF_REPO=$WT VERIF_OUT=$OUT /venv/bin/python /verif/check.py $P --tier quick > $OUT/log 2>&1
    E=$?
    echo "$S ($P): exit=$E $(grep -c '^VIOLATION' $OUT/log) violation lines"
    rm -rf $OUT
  fi
  git -C /repo worktree remove --force $WT
done
