#!/venv/bin/python
"""setup_cmd: nothing is built for the deciding engine (pure Python driving the
solver binaries).  Verifies that the solvers answer a canned query."""
import os
import shutil
import subprocess
import sys
import tempfile

Q = '(set-logic QF_LIA)(declare-const x Int)(assert (> x 2))(assert (< x 4))' \
    '(check-sat)(get-value (x))\n'


def main():
    ok = True
    fd, path = tempfile.mkstemp(suffix='.smt2')
    os.write(fd, Q.encode())
    os.close(fd)
    for name, cmd, required in (('z3', ['/usr/bin/z3'], True),
                                ('cvc5', ['cvc5', '--produce-models'], False),
                                ('z3-new', ['z3-new'], False)):
        if shutil.which(cmd[0]) is None:
            print('%s: not found%s' % (name, ' (REQUIRED)' if required else ''))
            ok = ok and not required
            continue
        r = subprocess.run(cmd + [path], capture_output=True, text=True)
        good = r.stdout.split()[:1] == ['sat'] and '3' in r.stdout
        print('%s: %s' % (name, 'ok' if good else 'BAD ' + r.stdout[:100]))
        ok = ok and (good or not required)
    os.unlink(path)
    try:
        import vivarium
        print('vivarium from', vivarium.__file__)
    except Exception as e:
        print('cannot import vivarium:', e)
        ok = False
    return 0 if ok else 1


if __name__ == '__main__':
    sys.exit(main())
