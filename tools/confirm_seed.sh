#!/bin/bash
# confirm_seed.sh <NAME> <patch.diff> <demo.py>: confirm a seeded change in a
# fresh scratch worktree of /repo HEAD (no git stash: stashes are shared
# between worktrees): demo passes without it, fails with it, suite passes with
# it.  On success store it under /verif/seeded/<NAME>/.
set -u
NAME=$1; PATCH=$(readlink -f $2); DEMO=$(readlink -f $3)
WT=/tmp/cs_$NAME
git -C /repo worktree remove --force $WT 2>/dev/null
git -C /repo worktree add -q --detach $WT HEAD || exit 2
cd $WT; export PYTHONPATH=$WT
cp $DEMO $WT/demo.py
echo "== demo without change"; timeout 600 /venv/bin/python demo.py > /tmp/cs_$NAME.without.log 2>&1; WO=$?; tail -2 /tmp/cs_$NAME.without.log; echo "exit $WO"
git apply $PATCH || { echo "patch does not apply to HEAD"; git -C /repo worktree remove --force $WT; exit 2; }
echo "== demo with change"; timeout 600 /venv/bin/python demo.py > /tmp/cs_$NAME.with.log 2>&1; W=$?; tail -3 /tmp/cs_$NAME.with.log; echo "exit $W"
echo "== suite with change"
VERIF_REPO=$WT /venv/bin/python /verif/tools/run_baseline.py -n 8 > /tmp/cs_$NAME.suite.log 2>&1; S=$?; head -3 /tmp/cs_$NAME.suite.log
echo "RESULT demo_with=$W demo_without=$WO suite=$S"
cd /; git -C /repo worktree remove --force $WT
if [ $W -ne 0 ] && [ $WO -eq 0 ] && [ $S -eq 0 ]; then
  mkdir -p /verif/seeded/$NAME
  cp $PATCH /verif/seeded/$NAME/patch.diff 2>/dev/null
  cp $DEMO /verif/seeded/$NAME/ 2>/dev/null
  echo CONFIRMED
else
  echo NOT-CONFIRMED
fi
