# table of claimed checks; exec'd by gen_manifest.py
check('C19',
      'For every timeline of up to 3 (quick) / 4 (thorough) events with symbolic '
      'times, values and run lengths - all listing orders, equal times and '
      'same-tick patterns are one formula - the solver shows on every feasible '
      'path of the real TimelineProcess+Engine that each emitted row holds the '
      'value of the latest event fired, and each event is returned exactly '
      'once; exhaustive within the bounds.',
      'integer time grid; timestep tau in {1,2,3} per job; proxies validated by '
      'concrete re-runs of sampled paths; z3 trusted (cross-checked by cvc5 and '
      'z3 5.1 in thorough)')
na('C14', 'serialization is orjson (C extension) + pint string parsing + float '
          'repr/strtod: symbolic values are realised before the call, nothing '
          'of the round-trip is visible to the solver; no decimal<->binary '
          'float theory in SMT-LIB (DESIGN.md section 8)')
