# table of claimed checks; exec'd by gen_manifest.py
check('C19',
      'For every timeline of up to 3 (quick) / 4 (thorough) events with symbolic '
      'times, values and run lengths - all listing orders, equal times and '
      'same-tick patterns are one formula - the solver shows on every feasible '
      'path of the real TimelineProcess+Engine that each emitted row holds the '
      'value of the latest event fired, and each event is returned exactly '
      'once; exhaustive within the bounds.',
      'integer time grid; timestep tau in {1,2,3} per job; proxies validated by '
      'concrete re-runs of sampled paths; z3 trusted (cross-checked by cvc5 and '
      'z3 5.1 in thorough)')
na('C14', 'serialization is orjson (C extension) + pint string parsing + float '
          'repr/strtod: symbolic values are realised before the call, nothing '
          'of the round-trip is visible to the solver; no decimal<->binary '
          'float theory in SMT-LIB (DESIGN.md section 8)')
SCHED_NOTE = ('integer time grid (float time outside the technique); stub '
              'processes are pure; unwinding bound K passes per call (cuts '
              'counted); proxies validated by concrete re-runs of sampled paths; '
              'z3 trusted, cross-checked by cvc5 / z3 5.1 in thorough')
check('C01',
      'All schedules within the bounds (symbolic timesteps per process or per '
      'poll, symbolic condition outcomes, symbolic intervals/force flags, free '
      'symbolic deltas) are executed symbolically through the real Engine; on '
      'every feasible path the solver shows each update applied exactly once, '
      'at the end of its interval, in order, and every emitted row equal to the '
      'sum of exactly the deltas due - free deltas force coefficient-wise '
      'equality. Exhaustive per configuration.', SCHED_NOTE)
check('C02',
      'Same symbolic runs as C01: the solver shows timestep argument = apply '
      'time - interval start, contiguity of intervals (restart at the clock '
      'after a quiet poll), sum of timesteps = elapsed time, and completeness '
      'after update(), for every schedule within the bounds including '
      'timesteps that do not divide the run length (they are independent '
      'symbolic variables).', SCHED_NOTE)
check('C03',
      'Adaptive timesteps and fresh condition outcomes per poll, every force '
      'flag symbolic, N in 0..3: the solver shows on every path that the clock '
      'never decreases, never passes the end, lands exactly, and that every '
      'scheduler pass strictly advances it (ranking function => termination on '
      'the integer grid; K passes as unwinding assertion). The adaptive '
      're-poll defect is a listed known finding.', SCHED_NOTE)
check('C17',
      'Every path of length <= 3 (4) over a small alphabet with ".." at any '
      'position, from every start node of 2 (3) tree shapes, is walked through '
      'the real Store and compared with an independent lexical resolver; dict '
      'helpers run with symbolic leaf values and the solver decides read-back '
      'and frame equalities.',
      'structure dimension is enumerated by solver-pruned forking (exhaustive '
      'within the bound, not beyond); leaf values symbolic')
check('C18',
      'Raw histories over 3 tree shapes with symbolic ints/bools and falsy '
      'constants; the branch on a value inside get_data(query) is decided by '
      'the solver, so zero/False arise as models; alignment and read-back are '
      'solver-decided equalities for all values.',
      'quantities (pint) and DatabaseEmitter outside; saved_data filled '
      'directly')
check('C04',
      'One path runs the same composite under every listing order (all '
      'permutations of processes and steps; topology, ports and initial-state '
      'keys reversed/rotated) with the same symbolic constant timesteps and '
      'deltas, and the solver shows all emitted rows equal; it also shows that '
      'invocations at equal (symbolic) times share one apply counter and read '
      'equal values equal to the last emitted row.',
      'constant timesteps; commuting updaters only; integer time')
check('C05',
      'Every DAG on up to 3 (4) labelled flow steps (edge flags decided by the '
      'solver-driven forking) plus two legacy derivers, in flat / nested / '
      'split-compartment layouts and two declaration orders, under symbolic '
      'timestep, delta and run length: the log of the real engine is parsed '
      'into phases and the solver shows v_j equal to a reference evaluation of '
      'the DAG in every row.',
      'DAG dimension is boolean (exhaustive within S); run-time structural '
      'changes are C10')
check('C12',
      'Symbolic schedules (two processes, constant symbolic timesteps, free '
      'deltas), symbolic emit flags via schema / store_schema / branch-level '
      '_emit, emit_step 1..3(4): the solver shows strictly increasing time '
      'keys, one row per batch (emit_step 1), row content = flagged leaves of '
      'the store (own traversal) and rows of a coarse emit_step being a '
      'sub-sequence of the emit_step-1 run executed in the same path; the real '
      'RAMEmitter/orjson path runs with values concretised by forking.',
      'integer time and emit_step; quantities outside; structural histories '
      'not in this harness')
check('C06',
      'A topology generator driven by solver-decided choices (dict / scalar / '
      '_path-dictionary / glob ports x 7 wirings with ".." at several '
      'positions x process depth) produces every combination within the bound; '
      'initial values and updates are symbolic, an independent lexical '
      'resolver names the target node, and the solver shows read = initial '
      'value and final = initial + sum of all colliding updates, with every '
      'other node keeping identity and value.',
      'accumulate updater; ill-formed combinations (leaf that is also a '
      'branch) skipped and counted; "**" and _reduce outside')
check('C08',
      'Updater functions run on symbolic integers and on dictionaries with '
      'symbolic presence bits and values against oracles written from the '
      'statement; through Store.apply_update at depth 0..2: declared updater, '
      '_updater override, user function, _multi_update order, identity of '
      'untouched nodes, update not mutated - all solver-decided for every '
      'value in range. Units are checked on solver-chosen unit combinations '
      'with concrete magnitudes.',
      'integers; float kernels via the kernel translator; pint magnitude '
      'arithmetic and numpy arrays concrete')
check('C09',
      'One inductive step from generated valid pre-states (1-2 agents, nested '
      'compartment, steps/derivers, symbolic values) for 12 single and '
      'combined operations applied through the engine; the solver shows the '
      'named effect and the frame (identity and value of every other node); '
      'thorough re-applies a second arbitrary operation to the post-state.',
      'pre-state generator bounds; exceptions raised by the engine\'s own '
      'bookkeeping are C10\'s (counted as cut_foreign_exception)')
check('C07',
      'An observer process with a glob port (declaring one sub-variable), a '
      'dict port on a store holding extra variables, a scalar port with ".." '
      'wiring and an output-only port compares, at all three callbacks, its '
      'states with the harness\'s own projection of the current hierarchy '
      'while an actor issues structural histories (7 operation kinds, length '
      '1-2(3)) at symbolic times; shape is a concrete fact per path, every '
      'leaf value equality is solver-decided.',
      'in-flight move/divide crashes are C10 findings and end the path here '
      '(counted); "**" ports outside')
check('C10',
      'Structural histories (add, delete, generate, divide with explicit or '
      'copied processes, move out/in; length 1-2(3)) over agents holding pure '
      'processes, flow steps or legacy derivers, issued at symbolic times so '
      'that updates are in flight: on every feasible path the solver shows '
      'contiguous per-instance schedules (creation time = application time of '
      'the creating update), only live objects invoked, each live step once '
      'per phase, published composite = hierarchy as leaf maps, and a second '
      'engine rebuilt from the published composite emitting equal rows.',
      'bookkeeping claim reads engine internals when present; two in-flight '
      'families are listed known findings')
check('C11',
      'Leaf dividers (split on ints and on doubles, binomial) are translated '
      'per run from their current source into bit-vector / IEEE-754 SMT terms '
      'and decided for every 64-bit state inside the stated bound, with both '
      'RNG outcomes as free variables; counterexamples are replayed on the '
      'real function. Through the engine: a mother with nine variables under '
      'set / split / zero / set_value / null / split_dict / user dividers with '
      'topology and config / a branch-level divider, symbolic values and '
      'symbolic presence of explicit daughter state, copied or explicit '
      'processes, one or two generations; shares, conservation, distinct '
      'processes and independence under in-place updates are solver-decided.',
      'kernel encoding validated on fixed inputs against the real function; '
      'integers |x| < 2^62, doubles >= 2^-1021 or 0; quantities outside',
      technique='AST -> SMT-LIB (QF_BV + FP) kernel translation decided by z3, '
                'plus bounded symbolic execution of Store.divide with z3 '
                'deciding every claim')
check('C13',
      'The real ParallelProcess / _handle_parallel_process / Engine.end / '
      'Store deletion code runs on an in-process transport stub with strict '
      'hand-off; which processes and steps are parallel, the schedule '
      '(symbolic timesteps so that idle / same-batch / in-flight arise as '
      'arithmetic cases), the operation (delete, divide with parallel '
      'daughters, move) and the stop point (end after an unforced run_for, '
      'after update, twice, engine dropped) are explored exhaustively; each '
      'path runs the all-serial twin and the solver shows equal rows and '
      'final state; protocol errors, hangs, uncollected results and workers '
      'not stopped are per-path facts.',
      'transport contract of the stub (ordered delivery, recv on empty pipe = '
      'hang, join iff target returned); no pickling; OS process management '
      'outside; counterexamples of the pending kind were confirmed with the '
      'real multiprocessing transport by hand')
check('C15',
      'Generated composites (2-3 processes, 5 wirings with "..", default '
      'present/absent per variable, explicit state present/absent per node, '
      'own initial_state present/absent, depth 0/2): the solver shows each '
      'declared variable at its lexically resolved node holding the explicit '
      'value or the default (d1 = d2 => value = d1 for double declarations), '
      'through Engine, generate_state, Composite.initial_state / default_state '
      '/ generate_store; conflicting _value declarations raise exactly when '
      'the solver can make them differ; glob children get sub-schema defaults.',
      'numpy defaults and quantities as values concrete or outside')
check('C16',
      'A composer is generated at every embedding path and run through '
      'Composite / parts / generated store with symbolic schedule constants: '
      'the solver shows re-rooted rows equal; merge sequences (length <= 3(4)) '
      'over a template composite merged repeatedly, fresh composites and loose '
      'parts at three paths are enumerated and union / unchanged are checked '
      'on identity snapshots after every merge; schema overrides are checked '
      'for every process x port.',
      'stub processes keep the default initial_state(); merge dimension is '
      'enumeration by solver-driven choices')
