#!/bin/bash
# refactor_regression.sh: apply every behaviour-preserving refactoring kept in
# /verif/refactors/ to a fresh scratch worktree of /repo HEAD and run all quick
# checks on it; every check must exit 0 (no false alarm).
for D in /verif/refactors/*.diff; do
  N=$(basename $D .diff); WT=/tmp/rr_$N
  git -C /repo worktree remove --force $WT 2>/dev/null
  git -C /repo worktree add -q --detach $WT HEAD
  if ! git -C $WT apply $D 2>/dev/null; then echo "$N: PATCH-DOES-NOT-APPLY to HEAD"; else
    echo "== $N"; /verif/tools/check_tree.sh $WT "$@" | grep "^exit=" | tr '\n' ' '; echo
  fi
  git -C /repo worktree remove --force $WT
done
