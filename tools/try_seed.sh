#!/bin/bash
# try_seed.sh <patch> <ID> [tier]: apply a seeded change to /repo, run the check(s), undo.
PATCH=$1; shift; TIER=${TIER:-quick}
cd /repo || exit 2
if [ -n "$(git status --porcelain --untracked-files=no)" ]; then echo "/repo has uncommitted changes"; exit 2; fi
git apply $PATCH || { echo "patch does not apply"; exit 2; }
for ID in "$@"; do
  /venv/bin/python /verif/check.py $ID --tier $TIER 2>&1 | cut -c1-400 | grep -v "^KNOWN" | head -12
  echo "exit=${PIPESTATUS[0]} ($ID)"
done
git checkout -- . 
