"""C04 - processes started together see one committed snapshot; listing order
is moot."""
import itertools

from vivarium.core.engine import Engine
from vivarium.core.process import Process, Step

from vsym.core import AND, OR, NOT, EQ, IMPLIES, ite, is_sym
from vsym import stubs

PROPERTY = 'C04'
CLAIMS = {
    'C04.same_instant': 'two process invocations at the same global time have '
                        'the same apply counter (no update applied between '
                        'them) and read equal values for every shared variable',
    'C04.committed': 'what a process reads for an emitted variable equals the '
                     'most recently emitted row (state after all updates due '
                     'and the ensuing steps)',
    'C04.layer': 'two steps of one dependency layer read equal values and no '
                 'update is applied between their invocations',
    'C04.order': 'with commuting updates the emitted rows (times and values) are '
                 'equal under every permutation of the listing order of '
                 'processes, steps, topology entries, ports and initial-state '
                 'keys',
}
GOALS = {'quick': ['two processes invoked at one instant',
                   'structural and ordinary update in one dictionary',
                   'process deleted in the batch in which its update is due',
                   'engine built from a generated store'],
         'thorough': ['two processes invoked at one instant',
                      'structural and ordinary update in one dictionary',
                      'process deleted in the batch in which its update is due',
                      'engine built from a generated store']}
STUBS = ['pure stub processes: accumulate a symbolic delta (indexed by process '
         'name and call index) into a shared z and set own_<name> := z read; '
         'user updater counting applications; recording emitter']
ASSUMPTIONS = ['constant symbolic timesteps (adaptive answers cannot be matched '
               'across two runs); integer time; updates commute (accumulate to '
               'z, set to distinct variables)']
BOUNDS = {'quick': 'N=3 processes x all 6 listing orders (topology and ports '
                   'listed in the reverse order, initial-state keys permuted), '
                   'timesteps in [1,3], update(T<=4); N=2 + 2 steps of one layer',
          'thorough': 'N=3, timesteps in [1,4], T<=6; N=3 + 2 steps, all orders '
                      'of processes and steps'}
OUTSIDE = 'non-commuting updaters; adaptive timesteps'

CTX = {}


def count_acc(cur, new):
    CTX['applies'] += 1
    return cur + new


class P(Process):
    def __init__(self, parameters):
        super().__init__(parameters)
        self.k = 0

    def ports_schema(self):
        items = [('z', {'_default': 0, '_emit': True, '_updater': count_acc}),
                 ('own_' + self.name, {'_default': 0, '_updater': 'set',
                                       '_emit': True}),
                 # list-valued, default updater (concatenation), not emitted
                 ('vec', {'_default': []})]
        if self.parameters.get('reverse_ports'):
            items.reverse()
        # two ports that are themselves variables, both wired to one
        # top-level variable (accumulate: their updates commute)
        leaf = {'_default': 0, '_emit': True}
        ports = [('s', dict(items)), ('ta', dict(leaf)), ('tb', dict(leaf))]
        if self.parameters.get('reverse_ports'):
            ports.reverse()
        return dict(ports)

    def calculate_timestep(self, states):
        return CTX['ts'][self.name]

    def next_update(self, timestep, states):
        key = (self.name, self.k)
        self.k += 1
        if key not in CTX['deltas']:
            CTX['deltas'][key] = CTX['ctx'].int('d', -3, 3)
        e = CTX['engine']
        CTX['inv'].append(dict(name=self.name, g=e.global_time,
                               c=CTX['applies'], z=states['s']['z'],
                               nrows=len(stubs.SINK['rows'])))
        # p0 passes on the list it was shown ("append what is there now"),
        # the others append one element
        vec = states['s']['vec'] if self.name == 'p0' else [1]
        CTX['vec_returned'].append(len(vec))
        upd = [('s', {'z': CTX['deltas'][key],
                      'own_' + self.name: states['s']['z'], 'vec': vec}),
               ('ta', 1), ('tb', 10)]
        if self.parameters.get('reverse_ports'):
            upd.reverse()
        return dict(upd)


class S(Step):
    """Reads z and the shared counter `mark`; writes what it read and adds 1 to
    `mark` (counted updater): a sibling of the same layer must not see it."""

    def ports_schema(self):
        return {'s': {'z': {'_default': 0},
                      'mark': {'_default': 0, '_updater': count_acc,
                               '_emit': True},
                      'seen_' + self.name: {'_default': 0, '_updater': 'set',
                                            '_emit': True}}}

    def next_update(self, timestep, states):
        CTX['sinv'].append(dict(name=self.name, c=CTX['applies'],
                                z=states['s']['z'], mark=states['s']['mark'],
                                nrows=len(stubs.SINK['rows'])))
        return {'s': {'seen_' + self.name: states['s']['z'] +
                      states['s']['mark'], 'mark': 1}}


class Dep(Step):
    """depends on st0: copies what st0 wrote in this phase"""

    def ports_schema(self):
        return {'s': {'seen_st0': {'_default': 0},
                      'dep': {'_default': 0, '_updater': 'set',
                              '_emit': True}}}

    def next_update(self, timestep, states):
        return {'s': {'dep': states['s']['seen_st0'] + 1}}


class Spawner(Process):
    """adds a member to `pool` (structural) and counts in `ledger` with one
    update; the order of its two ports is a parameter"""

    def ports_schema(self):
        items = [('pool', {'*': {'v': {'_default': 0, '_emit': True}}}),
                 ('ledger', {'spawned': {'_default': 0, '_emit': True}})]
        if self.parameters['reverse_ports']:
            items.reverse()
        return dict(items)

    def calculate_timestep(self, states):
        return CTX['ts']['spawner']

    def next_update(self, timestep, states):
        n = len(states['pool'])
        items = [('pool', {'_add': [{'key': 'm%d' % n, 'state': {'v': n}}]}),
                 ('ledger', {'spawned': 1})]
        if self.parameters['reverse_ports']:
            items.reverse()
        return dict(items)


class Census(Process):
    """reads the pool through a glob port and reports how many it saw"""

    def ports_schema(self):
        return {'pool': {'*': {'v': {'_default': 0}}},
                'report': {'seen': {'_default': 0, '_updater': 'set',
                                    '_emit': True}}}

    def calculate_timestep(self, states):
        return CTX['ts']['census']

    def next_update(self, timestep, states):
        CTX['census'].append(dict(g=CTX['engine'].global_time,
                                  seen=sorted(states['pool']),
                                  nrows=len(stubs.SINK['rows'])))
        return {'report': {'seen': len(states['pool'])}}


def body_spawner(ctx, cfg):
    """A structural update and an ordinary update in ONE update dictionary:
    whatever the listing order of ports and processes, a process started at an
    instant sees the pool as committed (= as in the last emitted row)."""
    CTX.clear()
    CTX['ctx'] = ctx
    CTX['ts'] = {'spawner': ctx.int('ts', 1, 2), 'census': ctx.int('ts', 1, 2)}
    T = ctx.int('T', 2, 4)
    runs = []
    for reverse_ports in (False, True):
        for census_first in (False, True):
            CTX['census'] = []
            sink = stubs.reset_sink()
            sp = Spawner({'reverse_ports': reverse_ports})
            ce = Census({})
            procs = [('census', ce), ('spawner', sp)] if census_first \
                else [('spawner', sp), ('census', ce)]
            topo = {'spawner': {'pool': ('pool',), 'ledger': ('ledger',)},
                    'census': {'pool': ('pool',), 'report': ('report',)}}
            e = Engine(processes=dict(procs), topology=topo,
                       initial_state={'pool': {'m0': {'v': 0}}},
                       emitter={'type': 'vsym_rec'}, display_info=False)
            CTX['engine'] = e
            e.update(T)
            runs.append(dict(rows=[dict(r) for r in sink['rows']],
                             census=CTX['census'], rp=reverse_ports,
                             cf=census_first))
    committed = []
    for r in runs:
        for c in r['census']:
            row = r['rows'][c['nrows'] - 1]
            committed.append(sorted(row.get('pool', {})) == c['seen'])
    ctx.claim('C04.committed', all(committed), sig='committed-structural',
              info=lambda: dict(runs=[(r['rp'], r['cf'], r['census'],
                                       r['rows']) for r in runs]))
    base = runs[0]['rows']
    eq = []
    for r in runs[1:]:
        if len(r['rows']) != len(base):
            eq.append(False)
            continue
        for a, b in zip(base, r['rows']):
            la, lb = stubs.leaves(a), stubs.leaves(b)
            eq.append(set(la) == set(lb))
            eq += [EQ(la[k], lb[k]) for k in la if k in lb]
    ctx.claim('C04.order', AND(eq), sig='order-structural',
              info=lambda: dict(runs=[(r['rp'], r['cf'], r['rows'])
                                      for r in runs]))
    ctx.goal('structural and ordinary update in one dictionary')


class Worker(Process):
    """lives inside a compartment and accumulates into a variable outside it
    (wired with '..')"""

    def ports_schema(self):
        return {'out': {'total': {'_default': 0, '_emit': True}},
                'own': {'x': {'_default': 0}}}

    def calculate_timestep(self, states):
        return CTX['ts']['worker']

    def next_update(self, timestep, states):
        CTX['worker_calls'].append(CTX['engine'].global_time)
        return {'out': {'total': CTX['dw']}}


class Reaper(Process):
    """deletes the worker's compartment with its first or second update"""

    def ports_schema(self):
        return {'cells': {'*': {'own': {'x': {'_default': 0}}}}}

    def calculate_timestep(self, states):
        return CTX['ts']['reaper']

    def next_update(self, timestep, states):
        CTX['reaper_calls'] += 1
        upd = {}
        if CTX['reaper_calls'] == CTX['kill_at'] and 'c1' in states['cells']:
            upd['cells'] = {'_delete': ['c1']}
            CTX['killed_at'] = CTX['engine'].global_time + timestep
        return upd


def body_reaper(ctx, cfg):
    """A process is deleted by an update of the same batch in which its own
    last update (to a variable outside its compartment) is due: that update is
    part of the state committed at that instant, whatever the listing order."""
    CTX.clear()
    CTX['ctx'] = ctx
    CTX['ts'] = {'worker': ctx.int('ts', 1, 3), 'reaper': ctx.int('ts', 1, 3)}
    CTX['dw'] = ctx.int('dw', -3, 3)
    kill_at = 1 + ctx.choice('kill_at', 2)
    T = ctx.int('T', 2, 5)
    runs = []
    for reaper_first in (False, True):
        CTX['worker_calls'] = []
        CTX['reaper_calls'] = 0
        CTX['kill_at'] = kill_at
        CTX['killed_at'] = None
        sink = stubs.reset_sink()
        procs = [('reaper', Reaper({})), ('cells', {'c1': {'worker': Worker({})}})]
        if not reaper_first:
            procs.reverse()
        topo = {'reaper': {'cells': ('cells',)},
                'cells': {'c1': {'worker': {'out': ('..', '..', 'out'),
                                            'own': ('own',)}}}}
        e = Engine(processes=dict(procs), topology=topo,
                   emitter={'type': 'vsym_rec'}, display_info=False)
        CTX['engine'] = e
        e.update(T)
        runs.append(dict(rows=[dict(r) for r in sink['rows']],
                         worker_calls=list(CTX['worker_calls']),
                         killed_at=CTX['killed_at'], rf=reaper_first))
    tsw, tsr = CTX['ts']['worker'], CTX['ts']['reaper']
    committed = []
    for r in runs:
        k = r['killed_at']
        for row in r['rows']:
            t = row['time']
            exp = 0
            for g in r['worker_calls']:
                # an update of the worker is committed when its interval has
                # ended by t - also when the compartment is deleted at that
                # very instant - and dropped when it was still in flight at
                # the deletion
                end = ite(g + tsw <= T, g + tsw, T)
                if k is None:
                    exp = exp + ite(end <= t, CTX['dw'], 0)
                else:
                    exp = exp + ite(AND(end <= t, end <= k), CTX['dw'], 0)
            committed.append(EQ(row['out']['total'], exp))
        if k is not None:
            ctx.goal('process deleted in the batch in which its update is due')
    info = lambda: dict(ts=CTX['ts'], kill_at=kill_at,
                        runs=[(r['rf'], r['killed_at'], r['worker_calls'],
                               r['rows']) for r in runs])
    ctx.claim('C04.committed', AND(committed), sig='committed-deleted-in-batch',
              info=info)
    base = runs[0]['rows']
    eq = [len(runs[1]['rows']) == len(base)]
    for a, b in zip(base, runs[1]['rows']):
        la, lb = stubs.leaves(a), stubs.leaves(b)
        eq.append(set(la) == set(lb))
        eq += [EQ(la[k], lb[k]) for k in la if k in lb]
    ctx.claim('C04.order', AND(eq), sig='order-deleted-in-batch', info=info)
    for row in base:
        ctx.observe('t', row['time'])
        ctx.observe('total', row['out']['total'])


def jobs(tier):
    q = tier == 'quick'
    return [dict(name='reaper', part='reaper', budget_s=100 if q else 600),
            
        dict(name='N3-perms', N=3, steps=0, B=3 if q else 4, T=4 if q else 6,
             budget_s=100 if q else 1200,
             crosscheck=0 if q else 20),
        dict(name='N2-steps2-perms', N=2, steps=2, B=3, T=3 if q else 5,
             budget_s=100 if q else 1200, crosscheck=0 if q else 20),
        dict(name='spawner', part='spawner', budget_s=100),
    ] + ([] if q else [
        dict(name='N3-steps2-perms', N=3, steps=2, B=3, T=4, budget_s=1200)])


def run_once(ctx, cfg, order, sorder, init_keys, reverse):
    names = ['p%d' % i for i in range(cfg['N'])]
    snames = ['st%d' % i for i in range(cfg['steps'])] + (
        ['dep'] if cfg['steps'] else [])
    CTX['applies'] = 0
    CTX['inv'] = []
    CTX['sinv'] = []
    CTX['vec_returned'] = []
    sink = stubs.reset_sink()
    procs = {n: P({'name': n, 'reverse_ports': reverse}) for n in order}
    topo_names = list(reversed(order)) if reverse else list(order)
    wires = [('s', ('s',)), ('ta', ('tally',)), ('tb', ('tally',))]
    if reverse:
        wires.reverse()
    topology = {n: dict(wires) for n in topo_names}
    kwargs = {}
    if snames:
        kwargs['steps'] = {n: (Dep({'name': n}) if n == 'dep'
                               else S({'name': n})) for n in sorder}
        kwargs['flow'] = {n: ([('st0',)] if n == 'dep' else [])
                          for n in (reversed(sorder) if reverse else sorder)}
        for n in sorder:
            topology[n] = {'s': ('s',)}
    init = {'s': {k: 0 for k in init_keys}}
    init['s']['vec'] = [1]
    if CTX.get('via_store'):
        # the engine reads everything (also the flow) back from a state tree
        from vivarium.core.composer import Composite
        store = Composite(dict(processes=procs, topology=topology,
                               state=init, **kwargs)).generate_store()
        e = Engine(store=store, emitter={'type': 'vsym_rec'},
                   display_info=False)
    else:
        e = Engine(processes=procs, topology=topology, initial_state=init,
                   emitter={'type': 'vsym_rec'}, display_info=False, **kwargs)
    CTX['engine'] = e
    e.update(CTX['T'])
    return dict(rows=[dict(r) for r in sink['rows']], inv=CTX['inv'],
                sinv=CTX['sinv'], vec_returned=list(CTX['vec_returned']),
                vec_final=len(e.state.get_value()['s']['vec']))


def body(ctx, cfg):
    if cfg.get('part') == 'spawner':
        return body_spawner(ctx, cfg)
    if cfg.get('part') == 'reaper':
        return body_reaper(ctx, cfg)
    names = ['p%d' % i for i in range(cfg['N'])]
    snames = ['st%d' % i for i in range(cfg['steps'])] + (
        ['dep'] if cfg['steps'] else [])
    CTX.clear()
    CTX['ctx'] = ctx
    CTX['ts'] = {n: ctx.int('ts', 1, cfg['B']) for n in names}
    CTX['deltas'] = {}
    CTX['T'] = ctx.int('T', 1, cfg['T'])
    CTX['via_store'] = bool(snames) and ctx.flag('via_store')
    if CTX['via_store']:
        ctx.goal('engine built from a generated store')
    keys = ['z'] + ['own_' + n for n in names]
    runs = []
    perms = list(itertools.permutations(names))
    sperms = list(itertools.permutations(snames)) or [()]
    k = 0
    for order in perms:
        for sorder in sperms:
            ik = keys[k % len(keys):] + keys[:k % len(keys)]
            runs.append((order, sorder,
                         run_once(ctx, cfg, order, sorder, ik, k % 2 == 1)))
            k += 1
    # ---- snapshot claims on the first run (and on every run in thorough)
    same, committed, layer = [], [], []
    for order, sorder, r in runs:
        inv = r['inv']
        for a, b in itertools.combinations(inv, 2):
            if a['name'] == b['name']:
                continue
            cond = EQ(a['g'], b['g'])
            if cond is False:
                continue
            if ctx.symbolic and 'two processes invoked at one instant' not in \
                    ctx.goals and (cond is True or ctx.solver.check_assuming(
                        cond.s) == 'sat'):
                ctx.goal('two processes invoked at one instant')
            same.append(IMPLIES(cond, AND(a['c'] == b['c'],
                                          EQ(a['z'], b['z']))))
        for a in inv:
            row = r['rows'][a['nrows'] - 1] if a['nrows'] <= len(r['rows']) \
                else None
            committed.append(row is not None and EQ(a['z'], row['s']['z']))
        sinv = r['sinv']
        nst = cfg['steps']
        for i in range(0, len(sinv) - nst + 1, nst or 1):
            grp = sinv[i:i + nst]
            for a, b in itertools.combinations(grp, 2):
                layer.append(AND(a['c'] == b['c'], EQ(a['z'], b['z']),
                                 EQ(a['mark'], b['mark'])))
    # both leaf ports of every applied update reached the shared variable
    tally = []
    for order, sorder, r in runs[:2]:
        for row in r['rows']:
            n_applied = 0
            for a in r['inv']:
                ts = CTX['ts'][a['name']]
                end = ite(a['g'] + ts <= CTX['T'], a['g'] + ts, CTX['T'])
                n_applied = n_applied + ite(end <= row['time'], 1, 0)
            tally.append(EQ(row.get('tally'), 11 * n_applied))
    ctx.claim('C04.committed', AND(tally), sig='two-leaf-ports-on-one-variable',
              info=lambda: dict(rows=runs[0][2]['rows']))
    # what a process was shown is a snapshot: the list it passed on is applied
    # as it was when returned, under every listing order
    ctx.claim('C04.committed', all(
        r['vec_final'] == 1 + sum(r['vec_returned']) for _, _, r in runs),
        sig='view-object-passed-on-as-update', info=lambda: dict(
            runs=[(o, r['vec_returned'], r['vec_final'])
                  for o, _, r in runs]))
    ctx.claim('C04.same_instant', AND(same), sig='same_instant')
    ctx.claim('C04.committed', AND(committed), sig='committed')
    if snames:
        ctx.claim('C04.layer', AND(layer), sig='layer')
    # ---- order independence
    base = runs[0][2]['rows']
    eq = []
    for order, sorder, r in runs[1:]:
        rows = r['rows']
        if len(rows) != len(base):
            eq.append(False)
            continue
        for a, b in zip(base, rows):
            eq.append(EQ(a['time'], b['time']))
            eq.append(EQ(a.get('tally'), b.get('tally')))
            eq.append(set(a['s']) == set(b['s']))
            for key in a['s']:
                if key in b['s']:
                    eq.append(EQ(a['s'][key], b['s'][key]))
    for row in base:
        ctx.observe('t', row['time'])
        ctx.observe('z', row['s']['z'])
    ctx.claim('C04.order', AND(eq), sig='order',
              info=lambda: dict(base=base, runs=[(o, so, r['rows'])
                                                 for o, so, r in runs[1:3]]))
OPTIONAL_CLAIMS = ('C04.layer',)
