"""C15 - every declared variable is built with its explicit or default initial
value."""
import copy

from vivarium.core.engine import Engine
from vivarium.core.process import Process, Step
from vivarium.core.composer import Composite
from vivarium.core.store import generate_state
from vivarium.library.units import units

from vsym.core import AND, OR, NOT, EQ, IMPLIES, is_sym, PathControl
from vsym.resolve import resolve, get, put, nest

PROPERTY = 'C15'
CLAIMS = {
    'C15.value': 'every declared variable exists at the node its port resolves '
                 'to (independent lexical resolver) and holds the value given in '
                 'the initial state if there is one, else its declared default '
                 '(claimed when the declarations agree or only one gives a '
                 'default); through Engine, generate_state and '
                 'Composite.generate_store',
    'C15.glob': 'children named in the initial state of a glob port are created '
                'with the declared sub-schema and defaults',
    'C15.conflict': 'two declarations of one variable with different _value or '
                    'incompatible _units raise at construction; equal ones are '
                    'merged silently',
    'C15.composite': 'Composite.initial_state() / default_state() place each '
                     'process\'s own initial_state() / schema defaults at the '
                     'nodes its ports resolve to, explicit state winning, '
                     'without _multi_update wrappers',
}
GOALS = {'quick': ['two declarations of one variable', 'variable given in the '
                   'initial state', 'dotdot wiring', 'glob child from state',
                   'glob over children that hold processes',
                   'undeclared key before declared ones',
                   'two ports of one process on one store'],
         'thorough': ['two declarations of one variable',
                      'variable given in the initial state', 'dotdot wiring',
                      'glob child from state',
                      'glob over children that hold processes',
                      'undeclared key before declared ones',
                      'two ports of one process on one store']}
STUBS = ['stub processes whose schema, own initial_state() and wiring are '
         'produced by solver-decided choices']
ASSUMPTIONS = ['which of two DIFFERENT declared defaults wins is not stated by '
               'the property: claimed only under equality (solver: d1 = d2 => '
               'value = d1)', 'well-formed: no node both leaf and branch']
BOUNDS = {'quick': '2 processes x 5 wirings x default present/absent per '
                   'variable x explicit state present/absent per node x own '
                   'initial_state present/absent, depth 0 or 2, glob port with '
                   '<=2 children', 'thorough': '3 processes (the third always declares defaults and has no own initial_state, to keep the space exhaustible)'}
OUTSIDE = 'numpy defaults, quantities as values (pint)'

WIRES = [('A',), ('B',), ('A', 'sub'), ('..', 'A'), ('A', '..', 'B')]


class P(Process):
    def ports_schema(self):
        return self.parameters['schema']

    def initial_state(self, config=None):
        return self.parameters.get('init', {})

    def next_update(self, timestep, states):
        return {}


class S(Step):
    def ports_schema(self):
        return self.parameters['schema']

    def next_update(self, timestep, states):
        return {}


def jobs(tier):
    q = tier == 'quick'
    out = []
    for depth in (0, 2):
        for w0 in range(len(WIRES)):
            out.append(dict(name='value-d%d-w%d' % (depth, w0), part='value',
                            depth=depth, w0=w0, N=2 if q else 3,
                            budget_s=100 if q else 1200,
                            crosscheck=0 if q else 10))
    for depth in (0, 2):
        for w0 in (0, 2, 4):
            out.append(dict(name='twoports-d%d-w%d' % (depth, w0),
                            part='value', depth=depth, w0=w0, N=1 if q else 2,
                            twoports=True, budget_s=100 if q else 900))
    out.append(dict(name='conflict', part='conflict', budget_s=100))
    out.append(dict(name='glob', part='glob', budget_s=100))
    return out


def body(ctx, cfg):
    return globals()['part_' + cfg['part']](ctx, cfg)


def part_value(ctx, cfg):
    depth = cfg['depth']
    parent = () if depth == 0 else ('agents', 'a')
    procs, topo, decl, own = {}, {}, {}, {}
    for i in range(cfg['N']):
        n = 'p%d' % i
        wi = cfg['w0'] if i == 0 else ctx.choice('w', len(WIRES))
        w = WIRES[wi]
        if resolve(parent, w) is None or (w[0] == '..' and depth == 0):
            w = ('A',)
        if '..' in w:
            ctx.goal('dotdot wiring')
        schema = {'port': {}}
        for var in ('v', 'u'):
            node = resolve(parent, w) + (var,)
            if (ctx.flag('hd') if i < 2 else True):
                dv = ctx.int('dv', -9, 9)
                schema['port'][var] = {'_default': dv}
                decl.setdefault(node, []).append(dv)
            else:
                schema['port'][var] = {'_updater': 'set'}
                decl.setdefault(node, [])
        init = {}
        if i < 2 and ctx.flag('own'):
            ov = ctx.int('ov', -9, 9)
            init = {'port': {'v': ov}}
            own[(n, resolve(parent, w) + ('v',))] = ov
        topo[n] = {'port': w}
        if i == 0 and cfg.get('twoports'):
            # a second port of the same process wired to the same store
            dv2 = ctx.int('dv', -9, 9)
            schema['port2'] = {'w2': {'_default': dv2}}
            node2 = resolve(parent, w) + ('w2',)
            decl[node2] = [dv2]
            topo[n]['port2'] = w
            if ctx.flag('own'):
                ov2 = ctx.int('ov', -9, 9)
                init = dict(init, port2={'w2': ov2})
                own[(n, node2)] = ov2
            ctx.goal('two ports of one process on one store')
        procs[n] = P({'schema': schema, 'init': init})
    # a step (declared under steps=, with a flow entry) declares a variable of
    # its own two levels down and one shared with the first process
    sw = ctx.int('dv', -9, 9)
    w0 = WIRES[cfg['w0']] if resolve(parent, WIRES[cfg['w0']]) is not None \
        and not (WIRES[cfg['w0']][0] == '..' and depth == 0) else ('A',)
    step_schema = {'port': {'v': {'_default': sw}},
                   'deep': {'lvl': {'w': {'_default': 6}}}}
    decl.setdefault(resolve(parent, w0) + ('v',), []).append(sw)
    step = S({'schema': step_schema})
    steps = nest({'st': step}, parent)
    flow = nest({'st': []}, parent)
    topo['st'] = {'port': w0, 'deep': ('D',)}
    deep_node = parent + ('D', 'lvl', 'w')
    processes = nest(dict(procs), parent)
    topology = nest(dict(topo), parent)
    nodes = sorted(decl)
    for a in nodes:
        for b in nodes:
            if a != b and b[:len(a)] == a:
                ctx.note('illformed', True)
                return
    if any(len(v) > 1 for v in decl.values()) or \
            len(set(nodes)) < 2 * cfg['N']:
        ctx.goal('two declarations of one variable')
    init, given = {}, {}
    if cfg['w0'] == 0 and ctx.flag('undeclared_first'):
        # keys no process declares, listed before the declared ones at the
        # root and at the level of the first declared variable
        init['zz_undeclared'] = 5
        put(init, nodes[0][:-1] + ('zz_undeclared',), 5)
        ctx.goal('undeclared key before declared ones')
    for node in nodes:
        if ctx.flag('gi'):
            given[node] = ctx.int('iv', -9, 9)
            put(init, node, given[node])
            ctx.goal('variable given in the initial state')
    info = lambda: dict(topology=topo, parent=parent, declared={
        str(k): v for k, v in decl.items()}, given={str(k): v for k, v in
                                                    given.items()})

    def expected(val, label):
        cl = []
        for node in nodes:
            actual = get(val, node, KeyError)
            if actual is KeyError:
                cl.append(False)
                continue
            if node in given:
                cl.append(EQ(actual, given[node]))
            else:
                ds = decl[node]
                if len(ds) == 0:
                    cl.append(actual is None)
                elif len(ds) == 1:
                    cl.append(EQ(actual, ds[0]))
                else:
                    same = AND([EQ(ds[0], x) for x in ds[1:]])
                    cl.append(IMPLIES(same, EQ(actual, ds[0])))
                    cl.append(OR([EQ(actual, x) for x in ds]))
            ctx.observe(label + str(node), actual)
        cl.append(get(val, deep_node, None) == 6)
        return AND(cl)
    e = Engine(processes=processes, steps=steps, flow=flow, topology=topology,
               initial_state=copy.deepcopy(init), display_info=False,
               emitter='null')
    ctx.claim('C15.value', expected(e.state.get_value(), 'engine'),
              sig='value-engine', info=info)
    st = generate_state(processes, topology, copy.deepcopy(init), steps, flow)
    ctx.claim('C15.value', expected(st.get_value(), 'generate_state'),
              sig='value-generate_state', info=info)
    # ---- Composite.initial_state / default_state / generate_store
    comp = Composite({'processes': processes, 'topology': topology,
                      'steps': steps, 'flow': flow})
    ist = comp.initial_state({'initial_state': copy.deepcopy(init)})
    cl = [not _has_multi(ist)]
    for (n, node), ov in own.items():
        a = get(ist, node, KeyError)
        if a is KeyError:
            cl.append(False)
        elif node in given:
            cl.append(EQ(a, given[node]))
        else:
            others = [v for (n2, nd), v in own.items()
                      if nd == node and n2 != n]
            if not others:
                cl.append(EQ(a, ov))
            else:
                cl.append(OR([EQ(a, x) for x in others + [ov]]))
    for node, iv in given.items():
        cl.append(EQ(get(ist, node, None), iv))
    dst = comp.default_state()
    for node in nodes:
        ds = decl[node]
        if len(ds) == 1:
            cl.append(EQ(get(dst, node, None), ds[0]))
        elif len(ds) > 1:
            cl.append(OR([EQ(get(dst, node, None), x) for x in ds]))
    cl.append(not _has_multi(dst))
    ctx.claim('C15.composite', AND(cl), sig='composite',
              info=lambda: dict(initial_state=ist, default_state=dst, own={
                  str(k): v for k, v in own.items()}, **info()))
    # a second use of the same Composite object, without a config, knows
    # nothing of the initial state given to the first call
    ist2 = comp.initial_state()
    cl = [not _has_multi(ist2), not comp['state']]
    for (n, node), ov in own.items():
        a = get(ist2, node, KeyError)
        others = [v for (n2, nd), v in own.items() if nd == node and n2 != n]
        cl.append(False if a is KeyError else
                  OR([EQ(a, x) for x in others + [ov]]))
    own_nodes = {nd for (_, nd) in own}
    for node in given:
        if node not in own_nodes:
            cl.append(get(ist2, node, KeyError) is KeyError)
    ctx.claim('C15.composite', AND(cl), sig='composite-second-use',
              info=lambda: dict(first=ist, second=ist2,
                                composite_state=comp['state'], own={
                                    str(k): v for k, v in own.items()},
                                **info()))
    comp2 = Composite({'processes': processes, 'topology': topology,
                       'steps': steps, 'flow': flow,
                       'state': copy.deepcopy(init)})
    store = comp2.generate_store()
    val = store.get_value()
    # generate_store folds the processes' own initial states in as well
    cl = []
    for node in nodes:
        actual = get(val, node, KeyError)
        if actual is KeyError:
            cl.append(False)
        elif node in given:
            cl.append(EQ(actual, given[node]))
        elif any(nd == node for (_, nd) in own):
            cl.append(OR([EQ(actual, v) for (_, nd), v in own.items()
                          if nd == node]))
        elif len(decl[node]) == 1:
            cl.append(EQ(actual, decl[node][0]))
    ctx.claim('C15.value', AND(cl), sig='value-generate_store', info=info)


def _has_multi(d):
    if isinstance(d, dict):
        return '_multi_update' in d or any(_has_multi(v) for v in d.values())
    return False


def part_conflict(ctx, cfg):
    kind = ctx.choice('kind', 3)
    if kind == 0:
        a = ctx.int('a', -3, 3)
        b = ctx.int('b', -3, 3)
        s1 = {'port': {'v': {'_value': a}}}
        s2 = {'port': {'v': {'_value': b}}}
        must_raise = NOT(EQ(a, b))
    else:
        # also units of the same dimension that differ (g / mg, m / mm)
        u1 = [units.g, units.m][ctx.choice('u1', 2)]
        u2 = [units.g, units.m, units.s, units.mg, units.mm][
            ctx.choice('u2', 5)]
        if kind == 1:
            s1 = {'port': {'v': {'_default': 1 * u1, '_units': u1}}}
            s2 = {'port': {'v': {'_default': 1 * u2, '_units': u2}}}
        else:
            s1 = {'port': {'v': {'_default': 1.0, '_units': u1}}}
            s2 = {'port': {'v': {'_default': 1.0, '_units': u2}}}
        must_raise = u1 != u2
    raised = None
    try:
        Engine(processes={'p0': P({'schema': s1}), 'p1': P({'schema': s2})},
               topology={'p0': {'port': ('A',)}, 'p1': {'port': ('A',)}},
               display_info=False, emitter='null')
    except PathControl:
        raise
    except Exception as err:
        ctx.check_poison()
        raised = err
    ctx.claim('C15.conflict', EQ(must_raise, raised is not None)
              if is_sym(must_raise) else (must_raise == (raised is not None)),
              sig='conflict-%d' % kind, info=lambda: dict(
                  kind=kind, raised=repr(raised)))


def part_glob(ctx, cfg):
    depth = ctx.choice('depth', 2)
    parent = () if depth == 0 else ('agents', 'a')
    dv = ctx.int('dv', -9, 9)
    du = ctx.int('du', -9, 9)
    schema = {'port': {'*': {'v': {'_default': dv}, 'u': {'_default': du},
                             'deep': {'w': {'_default': 7}}}}}
    children = [c for c in ('c1', 'c2') if ctx.flag('child')]
    init = {}
    given = {}
    for c in children:
        if ctx.flag('gv'):
            given[c] = ctx.int('iv', -9, 9)
            put(init, parent + ('G', c, 'v'), given[c])
        else:
            put(init, parent + ('G', c), {})
    if children:
        ctx.goal('glob child from state')
    proc = P({'schema': schema})
    procs = {'p': proc}
    topo = {'p': {'port': ('G',)}}
    if ctx.flag('second_declaration'):
        # another process declares the same glob with overlapping keys:
        # the declarations are merged (deeply), none replaces the other
        procs['p2'] = P({'schema': {'port': {'*': {
            'v': {'_emit': True}, 'deep': {'w2': {'_default': 8}}}}}})
        topo['p2'] = {'port': ('G',)}
        second = True
    else:
        second = False
    own = ctx.flag('children_have_processes')
    if own:
        # the children exist because the composite puts processes there (the
        # glob process is listed before them); the initial state gives values
        # for variables that only the glob declares
        for c in children:
            procs.setdefault('G', {})[c] = {'inner': P({'schema': {
                'port': {'own': {'_default': 1}}}})}
            topo.setdefault('G', {})[c] = {'inner': {'port': ()}}
        ctx.goal('glob over children that hold processes')
    e = Engine(processes=nest(procs, parent),
               topology=nest(topo, parent),
               initial_state=copy.deepcopy(init), display_info=False,
               emitter='null')
    val = get(e.state.get_value(), parent + ('G',), {})
    cl = [sorted(val) == sorted(children)]
    for c in children:
        node = val.get(c, {})
        if own:
            cl.append(node.get('own') == 1)
        cl.append(EQ(node.get('v'), given.get(c, dv)))
        cl.append(EQ(node.get('u'), du))
        cl.append(get(node, ('deep', 'w'), None) == 7)
        if second:
            cl.append(get(node, ('deep', 'w2'), None) == 8)
    ctx.claim('C15.glob', AND(cl), sig='glob', info=lambda: dict(
        children=children, given=given, got=val))
