"""C16 - composites embed, merge and load the same way through every entry
point."""
import copy

from vivarium.core.engine import Engine
from vivarium.core.process import Process, Step
from vivarium.core.composer import Composite, Composer

from vsym.core import AND, OR, NOT, EQ, is_sym, PathControl
from vsym.resolve import get, store_nodes
from vsym import stubs

PROPERTY = 'C16'
CLAIMS = {
    'C16.embed': 'a composite generated at a path holds everything under that '
                 'path, and the rows of the embedded engine equal the rows of '
                 'the root engine re-rooted at the path',
    'C16.entry_points': 'engines built from the Composite, from its parts and '
                        'from the store generated from it emit equal rows',
    'C16.union': 'merging yields the key-wise union under the path, later '
                 'entries winning on equal keys',
    'C16.unchanged': 'every merged-in composite keeps its keys and the identity '
                     'of its leaves, immediately and after every later merge',
    'C16.override': 'a _schema override changes exactly the named process and '
                    'port',
    'C16.template': 'one composer generated several times with different '
                    'overriding configs (reaching into nested entries of its '
                    'config) yields each time what a fresh composer with that '
                    'config yields; its stored config is unchanged',
}
GOALS = {'quick': ['same template merged twice', 'overlapping nested key',
                   'embedded two levels deep',
                   'merge into a generated composite',
                   'composer generated again after a nested override',
                   'flow entry merged over an existing one',
                   'overridden process replaced by a later merge',
                   'composite and loose parts merged in one call',
                   'steps-only composite'],
         'thorough': ['same template merged twice', 'overlapping nested key',
                      'embedded two levels deep',
                      'merge into a generated composite',
                      'composer generated again after a nested override',
                      'flow entry merged over an existing one',
                      'overridden process replaced by a later merge',
                      'composite and loose parts merged in one call',
                      'steps-only composite']}
STUBS = ['composer with two pure processes (symbolic constant timesteps, '
         'symbolic delta) and three flow steps (two in one layer, one '
         'dependent); recording emitter']
ASSUMPTIONS = ['stub processes keep the default initial_state() ({}): '
               'Composite.generate_store folds the processes\' own initial '
               'states in while Engine(composite=...) uses composite["state"], '
               'which is documented usage']
BOUNDS = {'quick': 'embedding paths (), (a,), (a,b); merge sequences of length '
                   '<=3 over {template composite, loose processes+topology, '
                   'state} at paths (), (x,), (x,y); timesteps in [1,3], '
                   'update(T<=4)', 'thorough': 'merge sequences of length 4'}
OUTSIDE = 'MetaComposer; composers overriding initial_state()'


class P(Process):
    def ports_schema(self):
        return {'s': {'x': {'_default': 0, '_emit': True}},
                't': {'y': {'_default': 3, '_emit': True}}}

    def calculate_timestep(self, states):
        return self.parameters['ts']

    def next_update(self, timestep, states):
        return {'s': {'x': self.parameters['d']},
                't': {'y': states['s']['x']}}


class D(Step):
    def ports_schema(self):
        return {'s': {'x': {'_default': 0}},
                't': {'z': {'_default': 0, '_updater': 'set', '_emit': True}}}

    def next_update(self, timestep, states):
        return {'t': {'z': states['s']['x'] + 1}}


class D2(Step):
    """same layer as D (empty dependency list): must see z from before D's
    update of this phase"""

    def ports_schema(self):
        return {'t': {'z': {'_default': 0},
                      'z2': {'_default': 0, '_updater': 'set', '_emit': True}}}

    def next_update(self, timestep, states):
        return {'t': {'z2': states['t']['z'] + 10}}


class D3(Step):
    """depends on D: sees z of this phase"""

    def ports_schema(self):
        return {'t': {'z': {'_default': 0},
                      'z3': {'_default': 0, '_updater': 'set', '_emit': True}}}

    def next_update(self, timestep, states):
        return {'t': {'z3': states['t']['z'] + 100}}


class C(Composer):
    def generate_processes(self, config):
        return {'p': P({'ts': config['ts'], 'd': config['d']}),
                'q': P({'ts': config['ts2'], 'd': config['d']})}

    def generate_steps(self, config):
        return {'st': D(), 'st2': D2(), 'st3': D3()}

    def generate_flow(self, config):
        return {'st': [], 'st2': [], 'st3': [('st',)]}

    def generate_topology(self, config):
        return {'p': {'s': ('s',), 't': ('t',)},
                'q': {'s': ('s',), 't': ('t2',)},
                'st': {'s': ('s',), 't': ('t',)},
                'st2': {'t': ('t',)}, 'st3': {'t': ('t',)}}


class CN(C):
    """the same composer with a nested config entry"""
    defaults = {'grow': {'ts': 1, 'd': 1}, 'ts2': 1}

    incomplete = []     # configs that reached generate_processes without
                        # all the nested keys

    def generate_processes(self, config):
        g = dict(config.get('grow') or {})
        if 'ts' not in g or 'd' not in g or 'ts2' not in config:
            CN.incomplete.append(repr(config))
            g.setdefault('ts', 1)
            g.setdefault('d', -99)
        return {'p': P({'ts': g['ts'], 'd': g['d']}),
                'q': P({'ts': config.get('ts2', 1), 'd': g['d']})}


def part_stepsonly(ctx, cfg):
    """A composite that holds steps only (no process at all) loads through
    every entry point."""
    path = [(), ('a',)][ctx.choice('path', 2)]
    v0 = ctx.int('v', -3, 3)

    def make():
        c = Composite({'steps': {'st': D(), 'st3': D3()},
                       'flow': {'st': [], 'st3': [('st',)]},
                       'topology': {'st': {'s': ('s',), 't': ('t',)},
                                    'st3': {'t': ('t',)}},
                       'state': {'s': {'x': v0}}})
        out = Composite({})
        out.merge(composite=c, path=path)
        return out
    stubs.reset_sink()
    ctx.goal('steps-only composite')
    results = {}
    for tag, kw in (('composite', lambda c: {'composite': c}),
                    ('parts', lambda c: dict(
                        processes=c['processes'], steps=c['steps'],
                        flow=c['flow'], topology=c['topology'],
                        initial_state=c['state'])),
                    ('store', lambda c: {'store': c.generate_store()})):
        c = make()
        e = Engine(emitter={'type': 'vsym_rec', 'tag': tag},
                   display_info=False, **kw(c))
        results[tag] = [stubs.leaves(r)
                        for r in stubs.SINK['tags'].get(tag, [])]
    ctx.claim('C16.entry_points', AND(
        same(results['composite'], results['parts']),
        same(results['composite'], results['store']),
        len(results['composite']) == 1),
        sig='steps-only-composite', info=lambda: dict(path=path, **results))


def part_template(ctx, cfg):
    d0 = ctx.int('d', -3, 3)
    d1 = ctx.int('d', -3, 3)
    t2 = ctx.int('ts', 1, 3)
    T = ctx.int('T', 1, 3)
    path = [(), ('a',)][ctx.choice('path', 2)]
    del CN.incomplete[:]
    composer = CN({'grow': {'d': d0}})
    before = copy.deepcopy(composer.config)
    first = composer.generate({'grow': {'d': d1}}, path=path)
    seq = []
    for k in range(2):
        which = ctx.choice('next', 3)
        over = [None, {'grow': {'ts': t2}}, {'ts2': t2}][which]
        exp = [dict(d=d0, ts=1, ts2=1), dict(d=d0, ts=t2, ts2=1),
               dict(d=d0, ts=1, ts2=t2)][which]
        seq.append((over, exp, composer.generate(over, path=path)))
    ctx.goal('composer generated again after a nested override')

    def params(comp):
        pr = get(comp['processes'], path)
        return pr['p'].parameters, pr['q'].parameters
    pp, pq = params(first)
    cl = [EQ(pp['d'], d1), EQ(pq['d'], d1), EQ(pp['ts'], 1), EQ(pq['ts'], 1)]
    for over, exp, comp in seq:
        pp, pq = params(comp)
        cl += [EQ(pp['d'], exp['d']), EQ(pq['d'], exp['d']),
               EQ(pp['ts'], exp['ts']), EQ(pq['ts'], exp['ts2'])]
    cl.append(_same_tree(composer.config, before))
    cl.append(not CN.incomplete)       # nested entries not named survive
    stubs.reset_sink()
    over, exp, comp = seq[-1]
    fresh = CN({'grow': {'d': d0}}).generate(over, path=path)
    r1, _ = run({'composite': comp}, T, 'again')
    r2, _ = run({'composite': fresh}, T, 'fresh')
    cl.append(same(r2, r1))
    ctx.claim('C16.template', AND(cl), sig='template', info=lambda: dict(
        config_before=before, config_after=composer.config,
        overrides=[o for o, _, _ in seq], again=r1, fresh=r2))
    for r in r1:
        for k, v in sorted(r.items()):
            ctx.observe(str(k), v)


def _same_tree(a, b):
    if isinstance(a, dict) or isinstance(b, dict):
        if not (isinstance(a, dict) and isinstance(b, dict)) \
                or set(a) != set(b):
            return False
        return AND([_same_tree(a[k], b[k]) for k in a])
    if is_sym(a) or is_sym(b):
        return EQ(a, b)
    return a == b


def jobs(tier):
    q = tier == 'quick'
    return [dict(name='stepsonly', part='stepsonly', budget_s=60),
            dict(name='template', part='template',
                 budget_s=100 if q else 600),
            dict(name='embed', part='embed', budget_s=100 if q else 900,
                 crosscheck=0 if q else 10),
            dict(name='merge', part='merge', L=3 if q else 4,
                 budget_s=100 if q else 900),
            dict(name='override', part='override', budget_s=60)]


def body(ctx, cfg):
    return globals()['part_' + cfg['part']](ctx, cfg)


def run(kw, T, tag):
    e = Engine(emitter={'type': 'vsym_rec', 'tag': tag}, display_info=False,
               **kw)
    e.update(T)
    return [stubs.leaves(r) for r in stubs.SINK['tags'].get(tag, [])], e


def same(r1, r2, strip=()):
    """rows r2 re-rooted by stripping `strip` equal rows r1"""
    if len(r1) != len(r2):
        return False
    cl = []
    for a, b in zip(r1, r2):
        b2 = {}
        for p, v in b.items():
            if p == ('time',):
                b2[p] = v
            elif p[:len(strip)] == strip:
                b2[p[len(strip):]] = v
            else:
                return False
        if set(a) != set(b2):
            return False
        cl += [EQ(a[p], b2[p]) for p in a]
    return AND(cl)


def part_embed(ctx, cfg):
    conf = {'ts': ctx.int('ts', 1, 3), 'ts2': ctx.int('ts', 1, 3),
            'd': ctx.int('d', -3, 3)}
    T = ctx.int('T', 1, 4)
    path = [(), ('a',), ('a', 'b')][ctx.choice('path', 3)]
    if len(path) == 2:
        ctx.goal('embedded two levels deep')
    stubs.reset_sink()
    root = C(conf).generate()
    r_root, _ = run({'composite': root}, T, 'root')
    emb = C(conf).generate(path=path)
    under = all(set(_leaf_paths(emb[k])) and all(
        p[:len(path)] == path for p in _leaf_paths(emb[k]))
        for k in ('processes', 'steps', 'flow', 'topology'))
    r_emb, e_emb = run({'composite': emb}, T, 'emb')
    ctx.claim('C16.embed', AND(under, same(r_root, r_emb, strip=path)),
              sig='embed', info=lambda: dict(path=path, root=r_root,
                                             embedded=r_emb))
    for r in r_emb:
        for k, v in sorted(r.items()):
            ctx.observe(str(k), v)
    # the same Composite object builds a second engine after the first ran
    r_again, _ = run({'composite': emb}, T, 'again')
    ctx.claim('C16.entry_points', same(r_emb, r_again),
              sig='composite-object-used-twice', info=lambda: dict(
                  path=path, first=r_emb, second=r_again))
    c2 = C(conf).generate(path=path)
    r_parts, _ = run(dict(processes=c2['processes'], steps=c2['steps'],
                          flow=c2['flow'], topology=c2['topology']), T,
                     'parts')
    c3 = C(conf).generate(path=path)
    r_store, _ = run(dict(store=c3.generate_store()), T, 'store')
    ctx.claim('C16.entry_points', AND(same(r_emb, r_parts),
                                      same(r_emb, r_store)),
              sig='entry_points', info=lambda: dict(
                  path=path, composite=r_emb, parts=r_parts, store=r_store))


def _leaf_paths(d, pre=()):
    out = []
    for k, v in d.items():
        if isinstance(v, dict) and v and not (
                pre and isinstance(v, dict) and all(
                    isinstance(x, tuple) for x in v.values())):
            out += _leaf_paths(v, pre + (k,))
        else:
            out.append(pre + (k,))
    return out


def snapshot(comp):
    """{(part, path): id(leaf)} over processes/steps/topology/flow/state; for
    topology and flow the leaf is the value itself (compared by equality)."""
    out = {}
    for part in ('processes', 'steps'):
        for p, v in _walk(comp[part]):
            out[(part, p)] = id(v)
    for part in ('topology', 'flow', 'state'):
        for p, v in _walk(comp.get(part) or {}):
            out[(part, p)] = repr(v)
    return out


def _walk(d, pre=()):
    for k, v in d.items():
        if isinstance(v, dict):
            # empty dictionaries are placeholders, not content
            yield from _walk(v, pre + (k,))
        else:
            yield pre + (k,), v


PATHS = [(), ('x',), ('x', 'y')]


def bystander_snap_shape(snap, later):
    """the snapshot a freshly generated composite must have: the same keys as
    the bystander's (object identities differ, so they are taken from
    `later` itself where the key is a process or step)"""
    mine = snapshot(later)
    return {k: (mine.get(k) if k[0] in ('processes', 'steps') else v)
            for k, v in snap.items()}


def part_merge(ctx, cfg):
    conf = {'ts': 1, 'ts2': 2, 'd': 1}
    template = C(conf).generate()
    template_snap = snapshot(template)
    # the composite merged into: an empty one, or one a composer generated
    # (whose config has no 'state' entry); a third generated composite is a
    # bystander that no merge may touch
    bystander = C(conf).generate()
    bystander_snap = snapshot(bystander)
    merged_in = []          # (composite, snapshot)
    expected = {}
    if ctx.flag('target_generated'):
        target = C(conf).generate()
        expected.update(snapshot(target))
        ctx.goal('merge into a generated composite')
    else:
        target = Composite({})
    n_template = 0
    steps = []
    for i in range(cfg['L']):
        kind = ctx.choice('kind', 6)
        if kind == 3 and i > 0:
            break
        path = PATHS[ctx.choice('at', len(PATHS))]
        if kind == 0:
            comp = template
            n_template += 1
            if n_template == 2:
                ctx.goal('same template merged twice')
            target.merge(composite=comp, path=path)
            add = snapshot(comp)
            merged_in.append((comp, template_snap))
            steps.append(('template', path))
        elif kind == 1:
            pr = P({'ts': 1, 'd': 1})
            comp = Composite({'processes': {'extra%d' % i: pr},
                              'topology': {'extra%d' % i: {'s': ('s',),
                                                           't': ('t',)}}})
            snap = snapshot(comp)
            target.merge(composite=comp, path=path)
            add = snap
            merged_in.append((comp, snap))
            steps.append(('fresh composite', path))
        elif kind == 5:
            # a composite (with a nested compartment) and loose processes for
            # that compartment in ONE call: the composite handed in must not
            # be changed
            nested = Composite({
                'processes': {'grp': {'n%d' % i: P({'ts': 1, 'd': 1})}},
                'topology': {'grp': {'n%d' % i: {'s': ('s',), 't': ('t',)}}}})
            snap = snapshot(nested)
            pr = P({'ts': 1, 'd': 1})
            target.merge(composite=nested,
                         processes={'grp': {'loose%d' % i: pr}},
                         topology={'grp': {'loose%d' % i: {'s': ('s',),
                                                            't': ('t',)}}},
                         path=path)
            add = dict(snap)
            add[('processes', ('grp', 'loose%d' % i))] = id(pr)
            add[('topology', ('grp', 'loose%d' % i, 's'))] = repr(('s',))
            add[('topology', ('grp', 'loose%d' % i, 't'))] = repr(('t',))
            merged_in.append((nested, snap))
            steps.append(('composite + loose parts in one call', path))
            ctx.goal('composite and loose parts merged in one call')
        elif kind == 4:
            # a loose step with a flow entry under the key of a template step
            # that already has one: the later dependency list replaces it
            st = D3()
            deps = [[], [('st2',)]][ctx.choice('deps', 2)]
            target.merge(steps={'st3': st}, flow={'st3': list(deps)},
                         topology={'st3': {'t': ('t',)}}, path=path)
            add = {('steps', ('st3',)): id(st),
                   ('flow', ('st3',)): repr(deps),
                   ('topology', ('st3', 't')): repr(('t',))}
            steps.append(('loose step + flow', path, deps))
            ctx.goal('flow entry merged over an existing one')
        else:
            pr = P({'ts': 1, 'd': 1})
            loose = {'p': pr}             # same key as the template: overrides
            topo = {'p': {'s': ('s2',), 't': ('t',)}}
            target.merge(processes=loose, topology=topo,
                         state={'s2': {'x': i}}, path=path)
            add = {('processes', ('p',)): id(pr),
                   ('topology', ('p', 's')): repr(('s2',)),
                   ('topology', ('p', 't')): repr(('t',)),
                   ('state', ('s2', 'x')): repr(i)}
            steps.append(('loose parts', path))
        before = set(expected)
        for (part, p), v in add.items():
            expected[(part, path + p)] = v
        if before & {(part, path + p) for (part, p) in add}:
            ctx.goal('overlapping nested key')
        # every composite merged in so far, and the bystander, is unchanged
        for comp, snap in merged_in + [(bystander, bystander_snap)]:
            ctx.claim('C16.unchanged', snapshot(comp) == snap,
                      sig='unchanged', info=lambda: dict(
                          steps=steps, before=sorted(map(str, snap)),
                          after=sorted(map(str, snapshot(comp)))))
    later = C(conf).generate()      # a composite generated after the merges
    ctx.claim('C16.unchanged', snapshot(later) == bystander_snap_shape(
        bystander_snap, later), sig='generated-later', info=lambda: dict(
            steps=steps, later=sorted(map(str, snapshot(later)))))
    got = snapshot(target)
    got = {k: v for k, v in got.items() if v not in ('{}', repr('{}'))}
    ctx.claim('C16.union', got == expected, sig='union', info=lambda: dict(
        steps=steps,
        missing=sorted(str(k) for k in expected if k not in got),
        extra=sorted(str(k) for k in got if k not in expected),
        different=sorted(str(k) for k in got if k in expected
                         and got[k] != expected[k])))
    ctx.note('steps', steps)


def part_override(ctx, cfg):
    which = ['p', 'q'][ctx.choice('proc', 2)]
    port = ['s', 't'][ctx.choice('port', 2)]
    var = {'s': 'x', 't': 'y'}[port]
    nv = ctx.int('nv', 10, 19)
    path = [(), ('a',)][ctx.choice('path', 2)]
    conf = {'ts': 1, 'ts2': 1, 'd': 1,
            '_schema': {which: {port: {var: {'_default': nv}}}}}
    if ctx.flag('replaced_later'):
        # the override is handed to the Composite itself (merge with
        # schema_override, absolute paths); a later merge brings a new process
        # object under the overridden key without naming the override again:
        # the override the composite holds for that key reaches the
        # replacement
        comp = C({'ts': 1, 'ts2': 1, 'd': 1}).generate(path=path)
        ov = {which: {port: {var: {'_default': nv}}}}
        for seg in reversed(path):
            ov = {seg: ov}
        comp.merge(schema_override=ov)
        newp = P({'ts': 1, 'd': 1})
        wires = {'p': {'s': ('s',), 't': ('t',)},
                 'q': {'s': ('s',), 't': ('t2',)}}[which]
        comp.merge(processes={which: newp}, topology={which: wires},
                   path=path)
        ctx.goal('overridden process replaced by a later merge')
    else:
        comp = C(conf).generate(path=path)
    e = Engine(composite=comp, display_info=False, emitter='null')
    val = get(e.state.get_value(), path)
    # p: s->s, t->t ; q: s->s, t->t2 ; defaults x=0, y=3
    # the overridden default applies at the node the named port is wired to
    node = {'p': {'s': ('s', 'x'), 't': ('t', 'y')},
            'q': {'s': ('s', 'x'), 't': ('t2', 'y')}}[which][port]
    exp = {('s', 'x'): 0, ('t', 'y'): 3, ('t2', 'y'): 3}
    cl = []
    for n_, dflt in exp.items():
        v = get(val, n_, None)
        if n_ == node:
            # p and q share s/x: the other declaration still says 0
            if n_ == ('s', 'x'):
                cl.append(OR(EQ(v, nv), EQ(v, 0)))
            else:
                cl.append(EQ(v, nv))
        else:
            cl.append(EQ(v, dflt))
    procs = {p[-1]: n.value for p, n in store_nodes(e.state).items()
             if not n.inner and isinstance(n.value, Process)}
    ov = {k: p.schema_override for k, p in procs.items()}
    cl.append(all((bool(ov[k]) == (k == which))
                  for k in ('p', 'q', 'st', 'st2', 'st3')))
    cl.append(list(ov[which].keys()) == [port])
    ctx.claim('C16.override', AND(cl), sig='override', info=lambda: dict(
        which=which, port=port, value=nv, state=val,
        overrides={k: repr(v) for k, v in ov.items()}))
