"""C17 - hierarchy paths obey a consistent path algebra."""
import copy
import itertools

from vivarium.core.store import Store, hierarchy_depth
from vivarium.core.process import assoc_in
from vivarium.library.topology import (
    normalize_path, get_in, assoc_path, delete_in, update_in, dict_to_paths,
    paths_to_dict)

from vsym.core import PathControl, AND, OR, NOT, EQ, is_sym

PROPERTY = 'C17'
CLAIMS = {
    'C17.walk_vs_lexical': 'when walking a relative path with Store.get_path '
                           'succeeds it reaches the node named by the lexical '
                           'normal form of (path of start + path) from the root',
    'C17.normalize': 'normalize_path agrees with the reference normaliser and is '
                     'idempotent',
    'C17.path_to': 'a.get_path(a.path_to(b)) is b for all node pairs',
    'C17.path_for': 'root.get_path(n.path_for()) is n',
    'C17.establish': '_establish_path reaches or creates exactly the lexically '
                     'named node',
    'C17.assoc_get': 'get_in reads what assoc_path wrote; other leaves unchanged',
    'C17.delete': 'delete_in removes exactly the addressed entry',
    'C17.update_in': 'update_in returns a dictionary in which only the addressed '
                     'subtree differs',
    'C17.enumerate': 'paths_to_dict(dict_to_paths) is the identity on leaf '
                     'dictionaries, hierarchy_depth lists the same leaves, '
                     'assoc_in agrees with assoc_path on a copy',
    'C17.missing': 'paths through missing keys return the default',
}
GOALS = {'quick': ['dotdot inside a path', 'walk through a missing key raises',
                   'path above the root'],
         'thorough': ['dotdot inside a path',
                      'walk through a missing key raises', 'path above the root']}
STUBS = []
ASSUMPTIONS = ['keys from a small alphabet; trees from three fixed shapes of '
               'depth <= 3; leaf values symbolic integers']
BOUNDS = {'quick': 'paths of length <= 3 over {a,b,..}, 4 start nodes, 2 tree '
                   'shapes', 'thorough': 'paths of length <= 4 over {a,b,c,..}, '
                                         'all start nodes, 3 tree shapes'}
OUTSIDE = 'walking through process nodes (topology-driven traversal); string ' \
          'paths ("a>b<c" style)'

SHAPES = {
    's1': {'a': {'a': {'x': 1}, 'b': {'x': 2}}, 'b': {'a': {'x': 3}}},
    's2': {'a': {'x': 1}, 'b': {'b': {'b': {'x': 2}}}},
    's3': {'a': {'a': {'a': {'x': 1}}, 'c': {'x': 4}}, 'b': {'x': 2},
           'c': {'b': {'x': 3}}},
    # a falsy key (dictionary helpers only): the empty string.  Keys are
    # strings by the HierarchyPath type (assoc_in passes them as keywords)
    's4': {'': {'': {'x': 1}, 'b': {'x': 2}}, 'b': {'x': 3}},
    # empty dictionaries below the top level: branches without leaves
    's5': {'a': {'b': {'x': 1}, 'a': {}}, 'b': {}},
}


def jobs(tier):
    out = []
    shapes = ('s1', 's2') if tier == 'quick' else ('s1', 's2', 's3')
    for sh in shapes:
        out.append(dict(name='tree-%s' % sh, part='tree', shape=sh,
                        maxlen=3 if tier == 'quick' else 4,
                        alph=['a', 'b', '..'] if tier == 'quick'
                        else ['a', 'b', 'c', '..'],
                        budget_s=100 if tier == 'quick' else 900))
        out.append(dict(name='dict-%s' % sh, part='dict', shape=sh,
                        maxlen=3 if tier == 'quick' else 4,
                        alph=['a', 'b', 'x'] if tier == 'quick'
                        else ['a', 'b', 'c', 'x'],
                        budget_s=100 if tier == 'quick' else 900,
                        crosscheck=20 if tier == 'thorough' else 0))
    out.append(dict(name='dict-s5-empty-branches', part='dict', shape='s5',
                    maxlen=3, alph=['a', 'b', 'x'],
                    budget_s=100 if tier == 'quick' else 600))
    out.append(dict(name='dict-s4-falsy-keys', part='dict', shape='s4',
                    maxlen=3, alph=['', 'b', 'x'],
                    budget_s=100 if tier == 'quick' else 600))
    return out


def ref_norm(path):
    out = []
    for s in path:
        if s == '..' and out:
            out.pop()
        else:
            out.append(s)
    return tuple(out)


def lexical(start, path):
    """Reference resolution; None when the path climbs above the root."""
    out = list(start)
    for s in path:
        if s == '..':
            if not out:
                return None
            out.pop()
        else:
            out.append(s)
    return tuple(out)


def schema_of(tree):
    return {k: schema_of(v) if isinstance(v, dict) else {'_default': v}
            for k, v in tree.items()}


def mkpath(ctx, maxlen, alph):
    n = ctx.choice('len', maxlen + 1)
    return tuple(alph[ctx.choice('seg', len(alph))] for _ in range(n))


def body(ctx, cfg):
    if cfg['part'] == 'tree':
        return tree_part(ctx, cfg)
    return dict_part(ctx, cfg)


def tree_part(ctx, cfg):
    shape = SHAPES[cfg['shape']]
    tree = Store(schema_of(shape))
    tree.apply_defaults()
    nodes = dict(tree.depth())
    starts = sorted(nodes)
    start = starts[ctx.choice('start', len(starts))]
    n = nodes[start]
    p = mkpath(ctx, cfg['maxlen'], cfg['alph'])
    ctx.note('start', start)
    ctx.note('path', p)
    if '..' in p[1:]:
        ctx.goal('dotdot inside a path')
    lex = lexical(start, p)
    if lex is None:
        ctx.goal('path above the root')
    try:
        reached = n.get_path(p)
    except Exception:
        ctx.check_poison()
        reached = 'raise'
        ctx.goal('walk through a missing key raises')
    info = lambda: dict(start=start, path=p, lexical=lex, reached=(
        reached if isinstance(reached, str) or reached is None
        else reached.path_for()))
    if reached != 'raise' and reached is not None:
        ctx.claim('C17.walk_vs_lexical',
                  lex is not None and lex in nodes and nodes[lex] is reached,
                  sig='walk', info=info)
    # normalize_path: agrees with the reference; idempotent
    full = start + p
    np_ = normalize_path(full)
    ctx.claim('C17.normalize', np_ == ref_norm(full)
              and normalize_path(np_) == np_, sig='normalize', info=info)
    # _establish_path on a copy of the tree
    if lex is not None:
        t2 = Store(schema_of(shape))
        t2.apply_defaults()
        n2 = dict(t2.depth())[start]
        before = dict(t2.depth())
        through_leaf = any(
            lex[:i] in before and not before[lex[:i]].inner and i < len(lex)
            and not isinstance(shape_at(shape, lex[:i]), dict)
            for i in range(1, len(lex)))
        # a walk that passes '..' from a node that must first be created is
        # compared lexically as well
        try:
            got = n2._establish_path(p, {})
            ok = True
        except Exception:
            ctx.check_poison()
            ok = False
        if ok:
            after = dict(t2.depth())
            new = set(after) - set(before)
            prefixes = set()
            cur = list(start)
            for s in p:
                if s == '..':
                    cur.pop()
                else:
                    cur.append(s)
                prefixes.add(tuple(cur))
            ctx.claim('C17.establish',
                      lex in after and after[lex] is got
                      and new <= prefixes
                      and all(after[q] is before[q] for q in before),
                      sig='establish', info=info)
    # path_to / path_for for all pairs
    ok_to = all(a.get_path(a.path_to(b)) is b
                for a, b in itertools.product(nodes.values(), repeat=2))
    ctx.claim('C17.path_to', ok_to, sig='path_to')
    ok_for = all(tree.get_path(nd.path_for()) is nd and nd.path_for() == pth
                 for pth, nd in nodes.items())
    ctx.claim('C17.path_for', ok_for, sig='path_for')


def shape_at(shape, path):
    d = shape
    for k in path:
        if not isinstance(d, dict) or k not in d:
            return None
        d = d[k]
    return d


def dict_part(ctx, cfg):
    shape = SHAPES[cfg['shape']]
    vals = {}

    def sym(d, pre=()):
        out = {}
        for k, v in d.items():
            if isinstance(v, dict):
                out[k] = sym(v, pre + (k,))
            else:
                vals[pre + (k,)] = out[k] = ctx.int('leaf', -5, 5)
        return out
    d0 = sym(shape)
    q = mkpath(ctx, cfg['maxlen'], cfg['alph'])
    ctx.note('path', q)
    v = ctx.int('v', -5, 5)
    info = lambda: dict(path=q, tree=d0)
    leaves0 = dict(dict_to_paths((), d0))
    # ---- enumerate
    rt = paths_to_dict(dict_to_paths((), copy.deepcopy(d0)))
    hd = hierarchy_depth(copy.deepcopy(d0))
    ctx.claim('C17.enumerate', AND(
        [set(leaves0) == set(vals), set(hd) == set(vals)]
        + [EQ(leaves0[p], vals[p]) for p in vals if p in leaves0]
        + [EQ(hd[p], vals[p]) for p in vals if p in hd]
        + [EQ(get_in(rt, p, None), vals[p]) for p in vals]
        + [set(dict(dict_to_paths((), rt))) == set(vals)]),
        sig='enumerate', info=info)
    # a path that runs through a leaf is ill-formed (TypeError with plain
    # ints as well): outside the claim
    for i in range(1, len(q)):
        sub = shape_at(shape, q[:i])
        if sub is not None and not isinstance(sub, dict):
            return
    # ---- missing keys
    present = shape_at(shape, q)
    if present is None and q:
        ctx.claim('C17.missing', get_in(copy.deepcopy(d0), q) is None and
                  get_in(copy.deepcopy(d0), q, 'dflt') == 'dflt',
                  sig='missing', info=info)
    if not q:
        return
    # ---- assoc_path / get_in / frame
    d = copy.deepcopy(d0)
    r = assoc_path(d, q, v)
    frame = [EQ(get_in(d, p), vals[p]) for p in vals
             if p[:len(q)] != q]
    ctx.claim('C17.assoc_get', AND([r is d, EQ(get_in(d, q), v)] + frame),
              sig='assoc', info=info)
    # a falsy value (solver-chosen kind, None included) written at q is read
    # back as itself even when the caller passes a default, and is enumerated
    FALSY = [None, 0, '', False, []]
    w = FALSY[ctx.choice('falsy', len(FALSY))]
    df = copy.deepcopy(d0)
    assoc_path(df, q, w)
    got = get_in(df, q, 'dflt')
    listed = dict(dict_to_paths((), df))
    ctx.claim('C17.assoc_get', (got is w or (got == w and type(got) is type(w)))
              and q in listed and (listed[q] is w or listed[q] == w),
              sig='assoc-falsy', info=lambda: dict(path=q, tree=d0,
                                                   written=repr(w),
                                                   read=repr(got)))
    # a dictionary written at q replaces whatever was there (also another
    # dictionary, also with the empty dictionary)
    for label, wd in (('dict', {'new': v}), ('empty-dict', {})):
        dd = copy.deepcopy(d0)
        raised = None
        try:
            assoc_path(dd, q, dict(wd))
            back = get_in(dd, q, 'dflt')
        except PathControl:
            raise
        except Exception as err:
            ctx.check_poison()
            raised, back = repr(err), None
        ok_w = raised is None and isinstance(back, dict) and \
            set(back) == set(wd)
        if ok_w and wd:
            ok_w = EQ(back['new'], v)
        ctx.claim('C17.assoc_get', ok_w, sig='assoc-' + label,
                  info=lambda: dict(path=q, tree=d0, written=wd,
                                    read=repr(back), raised=raised))
    # assoc_in agrees with assoc_path (on a copy, result only)
    r2 = assoc_in(copy.deepcopy(d0), q, v)
    same = [set(dict(dict_to_paths((), r2))) == set(dict(dict_to_paths((), d)))]
    same += [EQ(get_in(r2, p), x) for p, x in dict_to_paths((), d)]
    ctx.claim('C17.enumerate', AND(same), sig='assoc_in', info=info)
    # ---- delete_in
    d = copy.deepcopy(d0)
    delete_in(d, q)
    left = dict(dict_to_paths((), d))
    exp = {p for p in vals if p[:len(q)] != q}
    # exactly that entry goes: every dictionary on the way down is still
    # there (also when it is left empty)
    parents = [isinstance(get_in(d, q[:i], 'GONE'), dict)
               for i in range(len(q))
               if isinstance(shape_at(shape, q[:i]), dict)]
    ctx.claim('C17.delete', AND(
        [get_in(d, q, 'GONE') == 'GONE', {p for p in left if p in vals} == exp]
        + parents
        + [EQ(left[p], vals[p]) for p in exp if p in left]),
        sig='delete', info=lambda: dict(after=repr(d), **info()))
    # ---- update_in hands the function what is stored at the path, also
    # when that is falsy
    for w in ([vals[q]] if q in vals else []) + [FALSY[ctx.choice(
            'falsy_u', len(FALSY))]]:
        du = copy.deepcopy(d0)
        assoc_path(du, q, w)
        seen = []
        try:
            uu = update_in(du, q, lambda cur: (seen.append(cur), 'new')[1])
            ok_u = len(seen) == 1 and (
                EQ(seen[0], w) if is_sym(w) else (
                    type(seen[0]) is type(w) and seen[0] == w)) \
                and get_in(uu, q, 'dflt') == 'new'
        except PathControl:
            raise
        except Exception as err:
            ctx.check_poison()
            ok_u = False
        ctx.claim('C17.update_in', ok_u, sig='update_in-argument',
                  info=lambda: dict(path=q, stored=repr(w), seen=repr(seen)))
    # ---- update_in: only the addressed subtree differs
    d = copy.deepcopy(d0)
    u = update_in(d, q, lambda cur: v)
    ctx.claim('C17.update_in', AND(
        [EQ(get_in(u, q), v)]
        + [EQ(get_in(u, p), vals[p]) for p in vals if p[:len(q)] != q]),
        sig='update_in', info=info)
