"""Shared scheduler scenario for C01, C02, C03 (and reused by others).

A composite of N stub processes is driven through M run_for/update calls with
symbolic timesteps (one constant per process, or a fresh one per poll),
symbolic update-condition outcomes, symbolic intervals and force flags and
symbolic deltas.  Everything the property oracles need is recorded in a `Run`.
"""
from vivarium.core.engine import Engine
from vivarium.core.process import Process, Step

from vsym.core import AND, OR, NOT, ite, EQ, IMPLIES, is_sym, evaluate
from vsym import stubs

RUN = None    # the Run of the path being executed


class Tagged:
    """Update value carrying the identity of the next_update call it came from."""

    def __init__(self, tag):
        self.tag = tag

    def __deepcopy__(self, memo):
        return self

    def __repr__(self):
        return 'Tagged%r' % (self.tag,)


def tag_updater(current, new):
    RUN.applied.append((new.tag, RUN.engine.global_time, RUN.call_index))
    RUN.apply_counter += 1
    return current


class Run:
    def __init__(self, ctx, cfg):
        self.ctx = ctx
        self.cfg = cfg
        self.engine = None
        self.applied = []        # (tag, global_time, call index)
        self.apply_counter = 0
        self.clock = []          # (label, global_time)
        self.passes = []         # per call: list of global_time at pass start
        self.calls = []          # dict(start, interval, end, force, returned)
        self.call_index = -1
        self.procs = {}
        self.cut = False


class P(Process):
    """Stub process: accumulates d into x_<name> and z, tags y_<name>."""

    def __init__(self, run, name, mode, cond, B, dlo=-3, dhi=3,
                 parallel=False):
        super().__init__({'name': name, '_parallel': parallel})
        self.run = run
        self.mode = mode
        self.cond = cond
        self.B = B
        self.dr = (dlo, dhi)
        ctx = run.ctx
        grid = run.cfg.get('ts_grid')
        if grid:
            # concrete (possibly off-integer, dyadic) timesteps chosen by the
            # solver-driven choice: times concrete, values symbolic
            self.ts_const = grid[ctx.choice('tsg', len(grid))]
        else:
            self.ts_const = ctx.int('tsc', 1, B) if mode == 'const' else None
        self.c_const = ctx.flag('cc') if cond == 'const' else None
        self.path = (name,)  # hierarchy path of this process
        self.polls = []      # dict(g, front, ts, cond, call)
        self.ncalls = []     # dict(k, ts, g, start, d, end, force, poll)
        self._last_poll = None
        self._upd = None

    def ports_schema(self):
        n = self.name
        if self.run.cfg.get('lists'):
            # a list-valued variable under the default updater (accumulate =
            # concatenation); the first process echoes the list it was shown
            return {'s': {
                'x_' + n: {'_default': 0, '_emit': True},
                'y_' + n: {'_default': 0, '_updater': tag_updater},
                'z': {'_default': 0, '_emit': True},
                'vec': {'_default': []}}}
        if self.run.cfg.get('twoports') == 'nested':
            # two ports on one store, both reaching the same variable one
            # level below the port (port -> g -> z)
            return {'s': {
                'x_' + n: {'_default': 0, '_emit': True},
                'y_' + n: {'_default': 0, '_updater': tag_updater},
                'g': {'z': {'_default': 0, '_emit': True}}},
                's2': {'g': {'z': {'_default': 0, '_emit': True}}}}
        if self.run.cfg.get('twoports'):
            # two ports of the process are wired to one store
            return {'s': {
                'x_' + n: {'_default': 0, '_emit': True},
                'y_' + n: {'_default': 0, '_updater': tag_updater}},
                's2': {'z': {'_default': 0, '_emit': True}}}
        return {'s': {
            'x_' + n: {'_default': 0, '_emit': True},
            'y_' + n: {'_default': 0, '_updater': tag_updater},
            'z': {'_default': 0, '_emit': True}}}

    def calculate_timestep(self, states):
        run = self.run
        e = run.engine
        g = e.global_time
        run.clock.append(('poll', g))
        ts = self.ts_const if self.mode == 'const' else \
            run.ctx.int('ts', 1, self.B)
        front = e.front[self.path]['time'] if self.path in e.front else g
        self._last_poll = dict(g=g, front=front, ts=ts, cond=None, call=None,
                               call_index=run.call_index,
                               pass_index=len(run.passes[-1]) - 1
                               if run.passes else -1)
        self.polls.append(self._last_poll)
        return ts

    def update_condition(self, timestep, states):
        run = self.run
        run.clock.append(('cond', run.engine.global_time))
        if self.cond == 'none':
            c = True
        elif self.cond == 'const':
            c = self.c_const
        else:
            c = run.ctx.flag('c')
        if self._last_poll is not None:
            self._last_poll['cond'] = c
        if run.cfg.get('container_cond'):
            # the condition is a container (e.g. the list of outstanding
            # jobs): empty means "not now"
            return [1] if c else []
        return c

    def next_update(self, timestep, states):
        run = self.run
        e = run.engine
        g = e.global_time
        run.clock.append(('next', g))
        k = len(self.ncalls)
        d = run.ctx.int('d', *self.dr)
        call = run.calls[run.call_index]
        start = e.front[self.path]['time']
        rec = dict(k=k, ts=timestep, g=g, start=start, d=d,
                   end=call['end'], force=call['force'],
                   call_index=run.call_index, poll=self._last_poll,
                   states=states, apply_counter=run.apply_counter)
        if self._last_poll is not None:
            self._last_poll['call'] = k
            rec['asked'] = self._last_poll['ts']
        self.ncalls.append(rec)
        n = self.name
        if run.cfg.get('empties') and run.ctx.flag('empty'):
            # the process has nothing to report for this interval
            rec['d'] = 0
            rec['empty'] = True
            run.ctx.goal('empty update')
            return {}
        if run.cfg.get('lists'):
            if n == 'p0':
                # "append what is there now": the update is the very object
                # the process was shown in its states
                vec = states['s']['vec']
                rec['vec_len'] = len(vec)
                rec['vec_sum'] = sum(vec, 0)
                run.ctx.goal('list-valued variable, update echoes the view')
            else:
                vec = [d]
                rec['vec_len'] = 1
                rec['vec_sum'] = d
            return {'s': {'x_' + n: d, 'y_' + n: Tagged((n, k)), 'z': d,
                          'vec': vec}}
        if run.cfg.get('twoports') == 'nested':
            # one update dictionary, refilled; each port contributes d to z
            if self._upd is None:
                # the contribution to z is a constant of the process, put
                # into the dictionary once
                self._cz = run.ctx.int('cz', -3, 3)
                self._upd = {'s': {'g': {'z': self._cz}},
                             's2': {'g': {'z': self._cz}}}
            self._upd['s']['x_' + n] = d
            self._upd['s']['y_' + n] = Tagged((n, k))
            rec['dz'] = 2 * self._cz
            run.ctx.goal('two ports reach one nested variable, update reused')
            return self._upd
        if run.cfg.get('twoports'):
            # the process keeps one update dictionary and refills it
            if self._upd is None:
                self._upd = {'s': {}, 's2': {}}
            self._upd['s']['x_' + n] = d
            self._upd['s']['y_' + n] = Tagged((n, k))
            self._upd['s2']['z'] = d
            run.ctx.goal('two ports on one store, update dictionary reused')
            return self._upd
        return {'s': {'x_' + n: d, 'y_' + n: Tagged((n, k)), 'z': d}}


class NullStep(Step):
    def ports_schema(self):
        return {'s': {'w': {'_default': 0, '_emit': True}}}

    def next_update(self, timestep, states):
        return {}


def expected_end(c):
    """Oracle: the time at which the interval of call record c ends."""
    due = c['start'] + c['asked']
    if c['force']:
        return ite(due <= c['end'], due, c['end'])
    return due


def build(ctx, cfg):
    """Build the engine for the scenario; returns the Run."""
    global RUN
    run = Run(ctx, cfg)
    RUN = run
    N = cfg['N']
    B = cfg['B']
    names = ['p%d' % i for i in range(N)]
    if cfg.get('parallel'):
        # serial or parallel execution of each process (transport stub)
        from vsym import mpstub
        mpstub.install()
        mpstub.reset()
    for i, n in enumerate(names):
        cond = cfg['cond']
        if cond == 'mixed':        # only the last process has a condition
            cond = 'fresh' if i == len(names) - 1 else 'none'
        fixed = cfg.get('par_fixed') or {}
        if not cfg.get('parallel'):
            par = False
        elif str(i) in fixed:
            par = fixed[str(i)]
        else:
            par = ctx.flag('par')
        run.procs[n] = P(run, n, cfg['mode'], cond, B, parallel=par)
        if par:
            ctx.goal('a process runs in a worker')
    run.sink = stubs.reset_sink()
    kwargs = {}
    if cfg.get('precision') is not None:
        kwargs['global_time_precision'] = cfg['precision']
    if cfg.get('emit_step'):
        # rows only every emit_step time units (symbolic in [2, emit_step])
        run.emit_step = ctx.int('es', 2, cfg['emit_step'])
        kwargs['emit_step'] = run.emit_step
        ctx.goal('emit_step greater than 1')
    run.g0 = 0
    if cfg.get('g0'):
        # the engine starts at a symbolic global time (part of a larger,
        # older simulation)
        run.g0 = ctx.int('g0', 1, cfg['g0'])
        kwargs['initial_global_time'] = run.g0
        ctx.goal('initial global time not 0')
    topology = {n: {'s': ('s',)} for n in names}
    if cfg.get('twoports'):
        topology = {n: {'s': ('s',), 's2': ('s',)} for n in names}
    run.xrow = lambda row, n: row['s']['x_' + n]
    run.zrow = lambda row: row['s']['z']
    if cfg.get('twoports') == 'nested':
        run.zrow = lambda row: row['s']['g']['z']
    if cfg.get('emptypath'):
        # the port is the store that holds the process ('_path': ()); only z
        # is re-mapped, x_<n> and y_<n> keep their own names
        topology = {n: {'s': {'_path': (), 'z': ('s', 'z')}} for n in names}
        run.xrow = lambda row, n: row['x_' + n]
        ctx.goal('port wired with an empty _path')
    processes = dict(run.procs)
    if cfg.get('nested') and N >= 2:
        # the last process lives in a compartment and reaches the shared
        # store with a '..' wiring
        last = names[-1]
        run.procs[last].path = ('comp', last)
        del processes[last]
        del topology[last]
        processes['comp'] = {last: run.procs[last]}
        topology['comp'] = {last: {'s': ('..', 's')}}
        ctx.goal('a process nested in a compartment')
    if N == 0:
        # "no processes at all": a composite of one step only
        kwargs['steps'] = {'st': NullStep()}
        kwargs['flow'] = {'st': []}
        topology['st'] = {'s': ('s',)}
    if cfg.get('lists'):
        kwargs['initial_state'] = {'s': {'vec': [1]}}
    e = Engine(processes=processes, topology=topology,
               emitter={'type': 'vsym_rec'}, display_info=False, **kwargs)
    run.engine = e
    K = cfg['K']
    orig = getattr(e, '_remove_deleted_processes', None)
    if orig is not None:
        def counted():
            run.passes[-1].append(e.global_time)
            run.clock.append(('pass', e.global_time))
            if len(run.passes[-1]) > K:
                run.cut = True
                ctx.cut_unwinding()
            orig()
        e._remove_deleted_processes = counted
    return run


def drive(ctx, cfg, run, on_call=None):
    """Issue the M calls.  `forces`: 'last' (only the last call forced, earlier
    symbolic), 'sym' (every flag symbolic), 'all'."""
    e = run.engine
    M = cfg['M']
    for j in range(M):
        if cfg.get('iv_grid'):
            iv = cfg['iv_grid'][ctx.choice('ivg', len(cfg['iv_grid']))]
        else:
            iv = ctx.int('iv', cfg.get('iv_min', 1), cfg.get('IV', cfg['B']))
            if cfg.get('iv_min', 1) == 0 and 'zero-length call' not in \
                    ctx.goals and ctx.symbolic and \
                    ctx.solver.check_assuming(EQ(iv, 0).s) == 'sat':
                ctx.goal('zero-length call')
        if cfg['forces'] == 'all' or (cfg['forces'] == 'last' and j == M - 1):
            force = True
        else:
            force = ctx.flag('fc')
        start = e.global_time
        run.calls.append(dict(start=start, interval=iv, end=start + iv,
                              force=force, returned=False))
        run.call_index = j
        run.passes.append([])
        run.clock.append(('call', start))
        use_update = force and cfg.get('use_update', True)
        if use_update:
            e.update(iv)
        else:
            e.run_for(iv, force_complete=force)
        run.calls[-1]['returned'] = True
        run.calls[-1]['g_after'] = e.global_time
        run.clock.append(('return', e.global_time))
        if on_call is not None:
            on_call(j)
    return run


def monotone_expr(run):
    gs = [g for _, g in run.clock]
    return AND([b >= a for a, b in zip(gs, gs[1:])])


def progress_expr(run):
    """C03.progress: every scheduler pass strictly advances the clock."""
    out = []
    for ps in run.passes:
        out += [b > a for a, b in zip(ps, ps[1:])]
    return AND(out)


def describe(run, m):
    """Concrete description of a path under model m (for replay files)."""
    out = dict(calls=[], procs={})
    for c in run.calls:
        out['calls'].append(dict(
            start=evaluate(c['start'], m), interval=evaluate(c['interval'], m),
            force=c['force'], returned=c['returned']))
    for n, p in run.procs.items():
        out['procs'][n] = dict(
            polls=[dict(g=evaluate(q['g'], m), front=evaluate(q['front'], m),
                        ts=evaluate(q['ts'], m), cond=q['cond'], call=q['call'])
                   for q in p.polls],
            calls=[dict(k=c['k'], ts_arg=evaluate(c['ts'], m),
                        start=evaluate(c['start'], m), g=evaluate(c['g'], m),
                        d=evaluate(c['d'], m)) for c in p.ncalls])
    out['applied'] = [(t, evaluate(g, m)) for t, g, _ in run.applied]
    out['clock'] = [(l, evaluate(g, m)) for l, g in run.clock][:80]
    return out
