"""C09 - structural updates change the hierarchy exactly as specified and
nothing else.  One inductive step from a generated valid state; histories of
2-3 steps in the thorough tier re-apply the step to the post-state."""
import copy

from vivarium.core.engine import Engine
from vivarium.core.process import Process, Step

from vsym.core import AND, OR, NOT, EQ, is_sym, PathControl
from vsym.resolve import store_nodes

PROPERTY = 'C09'
CLAIMS = {
    'C09.removed': 'exactly the named subtree is gone (named by key or by path)',
    'C09.created': 'the named child / daughters / generated compartment / moved '
                   'subtree exists afterwards, with the declared sub-schema '
                   'defaults, the given state, the given processes and topology; '
                   'a moved subtree keeps its values, process objects and '
                   'relative wiring',
    'C09.frame': 'every other node keeps its identity and its value, and no '
                 'other node appears',
    'C09.reject': 'adding an existing key raises',
    'C09.order': 'when one update combines operations all of them are carried '
                 'out (additions and moves before deletions)',
}
OPTIONAL_CLAIMS = ('C09.reject', 'C09.order')
GOALS = {'quick': ['nested compartment', 'agent with steps', 'combined update',
                   'operation issued by a step'],
         'thorough': ['nested compartment', 'agent with steps',
                      'combined update', 'history of 2',
                      'operation issued by a step']}
STUBS = ['idle stub processes / steps inside the agents (so that nothing but the '
         'structural update changes the hierarchy); an actor process that '
         'issues the update and snapshots the store just before']
ASSUMPTIONS = ['pre-states are produced by a generator (1-2 agents in loc1, one '
               'in loc2, optional nested compartment, optional flow step and '
               'legacy deriver per agent, symbolic values); every operation is '
               'applied through the engine by the update of a process or of a '
               'flow step (symbolic flag)']
BOUNDS = {'quick': '14 single/combined operations x generated pre-states, one '
                   'step', 'thorough': 'histories of 2 steps over the same '
                                       'operations'}
OUTSIDE = '_reduce; deeper nesting than 2'

CTX = {}
FULL = {'s': {'x': {'_default': 0}, 'm': {'_default': 4}}}


class Idle(Process):
    def ports_schema(self):
        return copy.deepcopy(FULL)

    def next_update(self, timestep, states):
        return {}


class IdleStep(Step):
    def ports_schema(self):
        return copy.deepcopy(FULL)

    def next_update(self, timestep, states):
        return {}


def agent(with_steps=False, nested=False):
    a = dict(processes={'idle': Idle()}, topology={'idle': {'s': ('s',)}})
    if with_steps:
        a['steps'] = {'fs': IdleStep()}
        a['flow'] = {'fs': []}
        a['processes']['der'] = IdleStep()
        a['topology']['fs'] = {'s': ('s',)}
        a['topology']['der'] = {'s': ('s',)}
    if nested:
        a['processes']['sub'] = {'idle': Idle()}
        a['topology']['sub'] = {'idle': {'s': ('s',)}}
    return a


class Actor(Process):
    def __init__(self, parameters):
        super().__init__(parameters)
        self.pending = None

    def ports_schema(self):
        # 'tag' is declared for the agents only here (glob schema of a
        # process outside the compartments)
        return {'loc1': {'*': dict(copy.deepcopy(FULL), tag={'_default': 2})},
                'loc2': {'*': dict(copy.deepcopy(FULL), tag={'_default': 2})},
                'counts': {'*': {'_default': 5}}}

    def next_update(self, timestep, states):
        if self.pending is None:
            return {}
        op, self.pending = self.pending, None
        CTX['before'] = snap(CTX['engine'].state)
        return op


class ActorStep(Step):
    """the same actor as a flow step: the structural update is issued during
    a step phase"""

    def __init__(self, parameters):
        super().__init__(parameters)
        self.pending = None

    ports_schema = Actor.ports_schema
    next_update = Actor.next_update


def snap(store):
    out = {}
    for p, n in store_nodes(store).items():
        if n.inner:
            v = None
        elif isinstance(n.value, Process):
            v = ('proc', id(n.value), repr(n.topology))
        else:
            v = n.value
        out[p] = (id(n), v)
    return out


def under(p, pre):
    return p[:len(pre)] == pre


OPS = ['add', 'del_key', 'del_tuple', 'del_deep', 'gen', 'div', 'move',
       'add_existing', 'combo_add_del_move', 'combo_move_del', 'combo_gen_div',
       'del_nested', 'add_leaf', 'move_update']


def jobs(tier):
    q = tier == 'quick'
    out = []
    for i, op in enumerate(OPS):
        out.append(dict(name='op-%s' % op, ops=[i], budget_s=100 if q else 600))
    if not q:
        for i, op in enumerate(OPS):
            out.append(dict(name='hist-%s-then-any' % op, ops=[i, None],
                            budget_s=900, crosscheck=10))
    return out


def make_op(ctx, kind, state, vals_new, fresh):
    """Returns (update, label, removed, created, checks) for the current
    children of loc1/loc2."""
    l1 = sorted(state.get('loc1', {}).keys())
    l2 = sorted(state.get('loc2', {}).keys())
    first = l1[0] if l1 else None
    second = l1[1] if len(l1) > 1 else None
    label = OPS[kind]
    nk = 'n%d' % fresh
    if label == 'add':
        return ({'loc1': {'_add': [{'key': nk,
                                    'state': {'s': {'x': vals_new}}}]}},
                [], [('loc1', nk)], {'added': ('loc1', nk)})
    if label == 'add_leaf':
        # a leaf-valued child under a glob of leaves; the given state may be
        # any integer, including 0
        return ({'counts': {'_add': [{'key': nk, 'state': vals_new}]}},
                [], [('counts', nk)], {'added_leaf': ('counts', nk)})
    if label == 'add_existing':
        if first is None:
            return None
        return ({'loc1': {'_add': [{'key': first, 'state': {}}]}},
                [], [], {'reject': True})
    if first is None:
        return None
    if label == 'del_key':
        return ({'loc1': {'_delete': [first]}}, [('loc1', first)], [], {})
    if label == 'del_tuple':
        return ({'loc1': {'_delete': [(first,)]}}, [('loc1', first)], [], {})
    if label == 'del_deep':
        return ({'loc1': {'_delete': [(first, 's', 'x')]}},
                [('loc1', first, 's', 'x')], [], {})
    if label == 'del_nested':
        if 'sub' not in state['loc1'][first]:
            return None
        return ({'loc1': {first: {'_delete': ['sub']}}},
                [('loc1', first, 'sub')], [], {})
    if label == 'gen':
        a = agent(with_steps=CTX['with_steps'])
        g = {'key': 'g%d' % fresh, 'processes': a['processes'],
             'topology': a['topology'],
             # 'tag' is declared only by the actor's glob schema
             'initial_state': {'s': {'x': vals_new}, 'tag': vals_new}}
        if 'steps' in a:
            g['steps'] = a['steps']
            g['flow'] = a['flow']
        return ({'loc1': {'_generate': [g]}}, [], [('loc1', 'g%d' % fresh)],
                {'generated': (('loc1', 'g%d' % fresh), a)})
    if label == 'div':
        d = []
        bare = ctx.flag('second_daughter_without_initial_state')
        for suffix in ('0', '1'):
            a = agent()
            d.append({'key': first + suffix, 'processes': a['processes'],
                      'topology': a['topology'],
                      # the first daughter is listed with a state of her own
                      'initial_state': {'s': {'x': vals_new},
                                        'tag': vals_new}
                      if suffix == '0' else {}})
            if suffix == '1' and bare:
                del d[-1]['initial_state']     # the entry is optional
        return ({'loc1': {'_divide': {'mother': first, 'daughters': d}}},
                [('loc1', first)],
                [('loc1', first + '0'), ('loc1', first + '1')],
                {'daughters': [(('loc1', first + s), d[i]['processes'])
                               for i, s in enumerate('01')],
                 'daughter_state': (('loc1', first + '0', 's', 'x'),
                                    ('loc1', first + '1', 's', 'x'),
                                    ('loc1', first, 's', 'x')),
                 'daughter_tag': (('loc1', first + '0', 'tag'),
                                  ('loc1', first + '1', 'tag'),
                                  ('loc1', first, 'tag'))})
    if label == 'move':
        return ({'loc1': {'_move': [{'source': (first,),
                                     'target': ('loc2',)}]}},
                [('loc1', first)], [('loc2', first)],
                {'moved': (('loc1', first), ('loc2', first))})
    if label == 'move_update':
        # a move that carries an update for the moved subtree: applied through
        # the variables' updaters (x accumulates)
        return ({'loc1': {'_move': [{'source': (first,), 'target': ('loc2',),
                                     'update': {'s': {'x': vals_new}}}]}},
                [('loc1', first)], [('loc2', first)],
                {'moved': (('loc1', first), ('loc2', first)),
                 'moved_update': {('loc1', first, 's', 'x'): vals_new}})
    if label == 'combo_add_del_move':
        if second is None:
            return None
        return ({'loc1': {
            '_add': [{'key': nk, 'state': {'s': {'x': vals_new}}}],
            '_delete': [second],
            '_move': [{'source': (first,), 'target': ('loc2',)}]}},
            [('loc1', first), ('loc1', second)],
            [('loc1', nk), ('loc2', first)],
            {'added': ('loc1', nk), 'combo': True,
             'moved': (('loc1', first), ('loc2', first))})
    if label == 'combo_move_del':
        # move an agent and delete the very same key afterwards must not
        # delete the moved subtree at its new place
        return ({'loc1': {'_move': [{'source': (first,), 'target': ('loc2',)}],
                          '_add': [{'key': nk, 'state': {}}],
                          '_delete': [nk]}},
                [('loc1', first)], [('loc2', first)],
                {'combo': True, 'moved': (('loc1', first), ('loc2', first))})
    if label == 'combo_gen_div':
        a = agent()
        d = []
        for suffix in ('0', '1'):
            b = agent()
            d.append({'key': first + suffix, 'processes': b['processes'],
                      'topology': b['topology'], 'initial_state': {}})
        return ({'loc1': {
            '_generate': [{'key': 'g%d' % fresh, 'processes': a['processes'],
                           'topology': a['topology'],
                           'initial_state': {'s': {'x': vals_new}}}],
            '_divide': {'mother': first, 'daughters': d}}},
            [('loc1', first)],
            [('loc1', 'g%d' % fresh), ('loc1', first + '0'),
             ('loc1', first + '1')],
            {'combo': True, 'generated': (('loc1', 'g%d' % fresh), a)})
    raise AssertionError(label)


def body(ctx, cfg):
    CTX.clear()
    two = ctx.flag('two_agents')
    nested = ctx.flag('nested')
    with_steps = ctx.flag('with_steps')
    CTX['with_steps'] = with_steps
    if nested:
        ctx.goal('nested compartment')
    if with_steps:
        ctx.goal('agent with steps')
    vals = {k: ctx.int('v', -9, 9) for k in ('a1', 'a2', 'b1', 'sub')}
    a1 = agent(with_steps, nested)
    a2 = agent()
    b1 = agent()
    by_step = ctx.flag('by_step')
    actor = ActorStep({}) if by_step else Actor({})
    processes = {'actor': actor, 'loc1': {'a1': a1['processes']},
                 'loc2': {'b1': b1['processes']}}
    if by_step:
        del processes['actor']
        ctx.goal('operation issued by a step')
    topology = {'actor': {'loc1': ('loc1',), 'loc2': ('loc2',),
                          'counts': ('counts',)},
                'loc1': {'a1': a1['topology']}, 'loc2': {'b1': b1['topology']}}
    steps = {'loc1': {'a1': a1.get('steps', {})}}
    flow = {'loc1': {'a1': a1.get('flow', {})}}
    init = {'loc1': {'a1': {'s': {'x': vals['a1']}, 'tag': vals['sub']}},
            'loc2': {'b1': {'s': {'x': vals['b1']}}},
            'counts': {'c0': 1}}
    if nested:
        init['loc1']['a1']['sub'] = {'s': {'x': vals['sub']}}
    if two:
        processes['loc1']['a2'] = a2['processes']
        topology['loc1']['a2'] = a2['topology']
        init['loc1']['a2'] = {'s': {'x': vals['a2']}}
    kwargs = {}
    if by_step:
        steps['actor'] = actor
        flow['actor'] = []
    if with_steps or by_step:
        kwargs = dict(steps=steps, flow=flow)
    e = Engine(processes=processes, topology=topology, initial_state=init,
               display_info=False, emitter='null', **kwargs)
    CTX['engine'] = e
    if len(cfg['ops']) > 1:
        ctx.goal('history of 2')
    for step_i, kind in enumerate(cfg['ops']):
        if kind is None:
            kind = ctx.choice('op', len(OPS))
        vnew = ctx.int('vn', -9, 9)
        op = make_op(ctx, kind, e.state.get_value(), vnew, step_i)
        if op is None:
            return
        update, removed, created, checks = op
        label = OPS[kind]
        ctx.note('op%d' % step_i, label)
        if checks.get('combo'):
            ctx.goal('combined update')
        actor.pending = update
        raised = None
        try:
            e.update(1)
        except PathControl:
            raise
        except Exception as err:
            ctx.check_poison()
            raised = err
        before = CTX.get('before')
        after = snap(e.state)
        info = lambda: dict(op=label, update=repr(update),
                            raised=repr(raised),
                            before=sorted(map(str, before or {})),
                            after=sorted(map(str, after)))
        if checks.get('reject'):
            ctx.claim('C09.reject', raised is not None, sig='add-existing',
                      info=info)
            return
        if raised is not None:
            if _raised_in_engine_bookkeeping(raised):
                # the hierarchy was changed; the engine's own registration of
                # the result failed: that is C10's statement
                ctx.cut_foreign(raised)
            ctx.claim('C09.created', False, sig='raises:%s:%s' % (
                label, type(raised).__name__), info=info)
            return
        # ---- removed
        ok_removed = all(not any(under(p, r) for p in after) for r in removed)
        sig_r = ('delete-entry-given-as-tuple-path'
                 if label in ('del_tuple', 'del_deep') else 'removed:' + label)
        ctx.claim('C09.removed', ok_removed, sig=sig_r, info=info)
        # ---- created
        cr = [any(under(p, c) for p in after) for c in created]
        val = e.state.get_value()
        if 'added' in checks:
            pth = checks['added']
            node = _get(val, pth)
            cr.append(node is not None and EQ(_get(node, ('s', 'x')), vnew))
            cr.append(node is not None and _get(node, ('s', 'm')) == 4)
        if 'added_leaf' in checks:
            cr.append(EQ(_get(val, checks['added_leaf']), vnew))
        if 'generated' in checks:
            pth, a = checks['generated']
            node = _get(val, pth)
            cr.append(node is not None and EQ(_get(node, ('s', 'x')), vnew))
            cr.append(node is not None and _get(node, ('s', 'm')) == 4)
            if label == 'gen':
                cr.append(node is not None and EQ(_get(node, ('tag',)), vnew))
            for name, proc in a['processes'].items():
                if isinstance(proc, Process):
                    sn = after.get(pth + (name,))
                    cr.append(sn is not None and sn[1] is not None
                              and sn[1][1] == id(proc)
                              and sn[1][2] == repr(a['topology'][name]))
            for name, proc in a.get('steps', {}).items():
                sn = after.get(pth + (name,))
                cr.append(sn is not None and sn[1] is not None
                          and sn[1][1] == id(proc))
        if 'daughters' in checks:
            for pth, procs in checks['daughters']:
                sn = after.get(pth + ('idle',))
                cr.append(sn is not None and sn[1] is not None
                          and sn[1][1] == id(procs['idle']))
        if 'daughter_state' in checks:
            d0, d1, mo = checks['daughter_state']
            cr.append(EQ(_get(val, d0), vnew))            # listed state wins
            cr.append(EQ(_get(val, d1), before[mo][1]))   # mother's value
        if 'daughter_tag' in checks:
            d0, d1, mo = checks['daughter_tag']
            cr.append(EQ(_get(val, d0), vnew))
            cr.append(EQ(_get(val, d1), before[mo][1]))
        if 'moved' in checks:
            src, dst = checks['moved']
            for p, (i, v) in before.items():
                if under(p, src):
                    q = dst + p[len(src):]
                    if q not in after:
                        cr.append(False)
                        continue
                    v2 = after[q][1]
                    if p in checks.get('moved_update', {}):
                        cr.append(EQ(v2, v + checks['moved_update'][p]))
                    elif is_sym(v) or is_sym(v2):
                        cr.append(EQ(v, v2))
                    else:
                        cr.append(v == v2)   # same process object and wiring
        ctx.claim('C09.created', AND(cr), sig='created:' + label, info=info)
        if checks.get('combo'):
            ctx.claim('C09.order', AND(cr + [ok_removed]), sig='order:' + label,
                      info=info)
        # ---- frame
        frame = []
        for p, (i, v) in before.items():
            if any(under(p, r) for r in removed):
                continue
            if p not in after:
                frame.append(False)
                continue
            i2, v2 = after[p]
            frame.append(i2 == i)
            frame.append(EQ(v, v2) if (is_sym(v) or is_sym(v2)) else v == v2)
        extra = [p for p in after if p not in before
                 and not any(under(p, c) for c in created)]
        frame.append(not extra)
        ctx.claim('C09.frame', AND(frame), sig='frame:' + label, info=info)
        for k in sorted(after):
            if after[k][1] is not None and not isinstance(after[k][1], tuple):
                ctx.observe(str(k), after[k][1])


def _raised_in_engine_bookkeeping(err):
    """True when the innermost vivarium frame of the traceback is in
    engine.py (step graph / process registration), not in store.py."""
    tb = err.__traceback__
    last = None
    while tb is not None:
        fn = tb.tb_frame.f_code.co_filename
        if '/vivarium/' in fn:
            last = fn
        tb = tb.tb_next
    return last is not None and last.endswith('core/engine.py')


def _get(d, path):
    for k in path:
        if not isinstance(d, dict) or k not in d:
            return None
        d = d[k]
    return d
