"""C05 - steps run once per phase, after process updates, in dependency order."""
import itertools

from vivarium.core.engine import Engine
from vivarium.core.process import Process, Step

from vsym.core import AND, OR, NOT, EQ, PathControl
from vsym import stubs

PROPERTY = 'C05'
CLAIMS = {
    'C05.phases': 'the event log has the shape: step phase, configuration, '
                  'history row, then repeatedly (process invocations, '
                  'applications of their updates, step phase, history row): no '
                  'step between a process invocation and its batch, one phase '
                  'after every batch and at construction',
    'C05.once': 'in each phase every step runs exactly once, with timestep 0',
    'C05.deps': 'a step is invoked only after the update of every step it '
                '(transitively) depends on was applied in this phase',
    'C05.derivers_first': 'steps without flow entries run before all flow steps, '
                          'one at a time (update applied before the next is '
                          'invoked), in declaration order',
    'C05.layer': 'steps of one dependency layer see the same state (no update '
                 'applied between their invocations)',
    'C05.values': 'in every emitted row v_j = 1 + c_j*x + sum of v_i over its '
                  'dependencies, evaluated on the row\'s x (steps saw this '
                  'batch\'s process updates and their dependencies\' outputs)',
    'C05.accepts': 'a flow that is a DAG over existing steps (dependencies '
                   'written relative to the step\'s compartment, ".." allowed) '
                   'is accepted at construction',
    'C05.rejects': 'a flow naming an unknown step, or a cyclic flow, is rejected '
                   'with ValueError at construction',
}
GOALS = {'quick': ['a chain of 3', 'two steps in one layer', 'nested', 'split',
                   'a flow step also makes a structural update',
                   'deriver created at run time', 'legacy derivers only',
                   'nested flow steps generated at run time',
                   'engine built from a generated store'],
         'thorough': ['a chain of 3', 'two steps in one layer', 'nested',
                      'split', 'a flow step also makes a structural update',
                      'deriver created at run time', 'legacy derivers only',
                      'nested flow steps generated at run time',
                      'engine built from a generated store']}
STUBS = ['flow steps computing v_j from what they read (set updater that logs '
         'applications); one of them (symbolic choice, or none) adds a child '
         'to a glob store in the same update, every phase', 'two legacy derivers (one listed under processes, one '
         'under steps without a flow entry)', 'two processes accumulating x, each '
         'with its own symbolic timestep']
ASSUMPTIONS = ['the DAG dimension is boolean (edge flags decided by forking): '
               'every DAG on S labelled steps arises; schedule and data are '
               'symbolic integers']
BOUNDS = {'quick': 'S<=3 flow steps (all DAGs), 2 derivers, layouts flat / '
                   'nested depth 2 / split over two compartments, 2 declaration '
                   'orders, timestep in [1,3], update(<=3)',
          'thorough': 'S<=4 flow steps, same layouts, update(<=4)'}
OUTSIDE = 'steps removed at run time, flow steps added at run time (C10; a '\
          'legacy deriver generated at run time is covered here); parallel steps (C13)'

LOG = []
CTX = {}


def log_set(cur, new):
    CTX['applies'] += 1
    LOG.append(('apply', new[0]))
    return new[1]


def log_acc(cur, new):
    CTX['applies'] += 1
    LOG.append(('apply_p',))
    return cur + new


class Proc(Process):
    def ports_schema(self):
        return {'s': {'x': {'_default': 0, '_emit': True,
                            '_updater': log_acc}}}

    def calculate_timestep(self, states):
        return self.parameters['ts']

    def next_update(self, timestep, states):
        LOG.append(('proc', self.name))
        return {'s': {'x': self.parameters['d']}}


def log_spawn(cur, new):
    CTX['applies'] += 1
    LOG.append(('apply_p', 'spawn'))
    return cur + new


class Spawner(Process):
    """generates, once, a compartment holding a legacy deriver (a step listed
    under processes, no flow entry)"""

    def ports_schema(self):
        return {'s': {'n_spawned': {'_default': 0, '_updater': log_spawn}},
                'gen': {'*': {'k': {'_default': 0}}}}

    def calculate_timestep(self, states):
        return self.parameters['ts']

    def next_update(self, timestep, states):
        LOG.append(('proc', self.name))
        if CTX.get('spawn_issued'):
            return {'s': {'n_spawned': 0}}
        CTX['spawn_issued'] = True
        late = FS({'name': 'late', 'deps': [], 'c': 5})
        # a second deriver, declared after the first and reading its output
        late2 = FS({'name': 'late2', 'deps': ['late'], 'c': 0})
        wires = {'s': ('..', '..', 's'), 'o': ('..', '..', 'o')}
        gen = {'key': 'c1', 'processes': {'late': late, 'late2': late2},
               'topology': {'late': dict(wires), 'late2': dict(wires)},
               'initial_state': {}}
        mode = self.parameters.get('mode', 0)
        if mode == 1:
            # the same derivers under the 'steps' key, still without flow
            gen['steps'] = gen.pop('processes')
            gen['processes'] = {}
        elif mode == 2:
            # flow steps in a compartment nested inside the generated one,
            # the dependent step listed first
            deep = {'s': ('..', '..', '..', 's'), 'o': ('..', '..', '..', 'o')}
            gen = {'key': 'c1', 'processes': {},
                   'steps': {'inner': {'late2': late2, 'late': late}},
                   'flow': {'inner': {'late2': [('late',)], 'late': []}},
                   'topology': {'inner': {'late2': dict(deep),
                                          'late': dict(deep)}},
                   'initial_state': {}}
            CTX['ctx'].goal('nested flow steps generated at run time')
        return {'s': {'n_spawned': 1}, 'gen': {'_generate': [gen]}}


class FS(Step):
    def ports_schema(self):
        sch = {'s': {'x': {'_default': 0}},
               'o': {'v_' + self.name: {'_default': 0, '_updater': log_set,
                                        '_emit': True}}}
        for d in self.parameters['deps']:
            sch['o']['v_' + d] = {'_default': 0, '_updater': log_set}
        if self.parameters.get('adds'):
            sch['e'] = {'*': {'q': {'_default': 0}}}
        return sch

    def next_update(self, timestep, states):
        LOG.append(('step', self.name, timestep, CTX['applies']))
        val = 1 + self.parameters['c'] * states['s']['x']
        for d in self.parameters['deps']:
            dv = states['o']['v_' + d]
            if dv is None:
                # the variable exists but holds no value yet: the step it
                # depends on has not been applied (shows up in the claims)
                dv = -1000
            val = val + dv
        upd = {'o': {'v_' + self.name: (self.name, val)}}
        if self.parameters.get('adds'):
            # the same update also changes the structure of the hierarchy
            CTX['added'] = CTX.get('added', 0) + 1
            upd['e'] = {'_add': [{'key': 'k%d' % CTX['added'],
                                  'state': {'q': 1}}]}
        return upd


class Emit:
    pass


def jobs(tier):
    out = []
    for S in ((2, 3) if tier == 'quick' else (2, 3, 4)):
        for layout in ('flat', 'nested', 'split'):
            for order in ('reversed', 'rotated'):
                if tier == 'quick' and S == 3 and order == 'rotated' \
                        and layout != 'flat':
                    continue
                if S == 3 and layout == 'flat':
                    # the largest jobs, split by what the spawner generates
                    for tag, kw in (('nospawn', dict(spawn=False)),
                                    ('spawn0', dict(spawn=True, spawn_as=0)),
                                    ('spawn1', dict(spawn=True, spawn_as=1)),
                                    ('spawn2', dict(spawn=True, spawn_as=2))):
                        out.append(dict(
                            name='S3-flat-%s-%s' % (order, tag), S=S,
                            layout=layout, order=order, part='run', IV=3,
                            budget_s=100 if tier == 'quick' else 900, **kw))
                    continue
                out.append(dict(name='S%d-%s-%s' % (S, layout, order), S=S,
                                layout=layout, order=order, part='run',
                                IV=3 if S < 4 else 2,
                                budget_s=100 if tier == 'quick' else 900,
                                crosscheck=20 if tier == 'thorough' else 0))
    for S in (2, 3):
        out.append(dict(name='S%d-flat-reversed-via-store' % S, S=S,
                        layout='flat', order='reversed', part='run', IV=2,
                        via_store=True,
                        budget_s=100 if tier == 'quick' else 900))
    out.append(dict(name='rejects', part='rejects', budget_s=60))
    out.append(dict(name='legacy-only', part='legacy', budget_s=60))
    return out


def legacy_only(ctx, cfg):
    """Every step is a legacy deriver listed under `processes` (no steps=, no
    flow=): a step phase at construction and after every batch all the same."""
    ts = ctx.int('ts', 1, 3)
    d = ctx.int('d', -3, 3)
    nested = ctx.flag('nested')
    LOG.clear()
    CTX['applies'] = 0
    CTX['added'] = 0
    base = ('agents', 'a') if nested else ()
    up = ('..',) * len(base)
    procs = {'p': Proc({'name': 'p', 'ts': ts, 'd': d}),
             'der_a': FS({'name': 'der_a', 'deps': [], 'c': 7}),
             'der_b': FS({'name': 'der_b', 'deps': ['der_a'], 'c': 0})}
    topo = {n: {'s': up + ('s',), 'o': up + ('o',)} for n in procs}
    topo['p'] = {'s': up + ('s',)}
    for seg in reversed(base):
        procs, topo = {seg: procs}, {seg: topo}

    def hook(data):
        LOG.append(('emit', data['table']))
    sink = stubs.reset_sink(hook)
    e = Engine(processes=procs, topology=topo, emitter={'type': 'vsym_rec'},
               display_info=False)
    e.update(ctx.int('iv', 1, 3))
    log = list(LOG)
    ctx.goal('legacy derivers only')
    vals = []
    for row in sink['rows']:
        x = row['s']['x']
        vals.append(EQ(row['o']['v_der_a'], 1 + 7 * x))
        vals.append(EQ(row['o']['v_der_b'], 1 + (1 + 7 * x)))
        ctx.observe('x', x)
    info = lambda: dict(log=log, rows=sink['rows'])
    ctx.claim('C05.values', AND(vals), sig='values-legacy-only', info=info)
    # one phase (der_a, apply, der_b, apply) before every history row
    shape = []
    i = 0
    n_rows = 0
    while i < len(log):
        if log[i] == ('emit', 'history'):
            n_rows += 1
            shape.append([en[:2] for en in log[max(0, i - 5):i]
                          if en[0] in ('step', 'apply')][-4:] == [
                ('step', 'der_a'), ('apply', 'der_a'),
                ('step', 'der_b'), ('apply', 'der_b')])
        i += 1
    n_steps = len([en for en in log if en[0] == 'step'])
    ctx.claim('C05.once', all(shape) and n_steps == 2 * n_rows and all(
        en[2] == 0 for en in log if en[0] == 'step'),
        sig='once-legacy-only', info=info)


def body(ctx, cfg):
    if cfg['part'] == 'rejects':
        return rejects(ctx, cfg)
    if cfg['part'] == 'legacy':
        return legacy_only(ctx, cfg)
    S = cfg['S']
    names = ['s%d' % i for i in range(S)]
    deps = {n: [] for n in names}
    for i, j in itertools.combinations(range(S), 2):
        if ctx.flag('e'):
            deps[names[j]].append(names[i])
    ctx.note('deps', deps)
    decl = list(reversed(names)) if cfg['order'] == 'reversed' \
        else names[1:] + names[:1]
    layout = cfg['layout']
    # compartment of each step
    if layout == 'flat':
        home = {n: () for n in names}
        base = ()
    elif layout == 'nested':
        home = {n: ('agents', 'a') for n in names}
        base = ('agents', 'a')
        ctx.goal('nested')
    else:
        home = {n: ('agents', 'a' if i % 2 == 0 else 'b')
                for i, n in enumerate(names)}
        base = ('agents', 'a')
        ctx.goal('split')

    def rel(frm, to, name):
        """dependency path relative to the compartment `frm`"""
        if frm == to:
            return (name,)
        return ('..', to[-1], name)

    def nest(d, where):
        for seg in reversed(where):
            d = {seg: d}
        return d

    def merge(a, b):
        for k, v in b.items():
            if k in a and isinstance(a[k], dict) and isinstance(v, dict):
                merge(a[k], v)
            else:
                a[k] = v
        return a

    ts = ctx.int('ts', 1, 3)
    d = ctx.int('d', -3, 3)
    LOG.clear()
    CTX['applies'] = 0
    CTX['added'] = 0
    adder = ctx.choice('adder', S + 1)     # S: no step adds
    if adder < S:
        ctx.goal('a flow step also makes a structural update')
    processes, steps, flow, topology = {}, {}, {}, {}
    up = ('..',) * len(base)
    for n in decl:
        st = FS({'name': n, 'deps': deps[n], 'c': names.index(n) + 1,
                 'adds': names.index(n) == adder})
        merge(steps, nest({n: st}, home[n]))
        merge(flow, nest({n: [rel(home[n], home[dd], dd) for dd in deps[n]]},
                         home[n]))
        hup = ('..',) * len(home[n])
        merge(topology, nest({n: dict({'s': hup + ('s',), 'o': hup + ('o',)},
                                      **({'e': hup + ('e',)}
                                         if names.index(n) == adder else {}))},
                             home[n]))
    # legacy derivers: one under processes, one under steps without flow
    der_a = FS({'name': 'der_a', 'deps': [], 'c': 7})
    der_b = FS({'name': 'der_b', 'deps': ['der_a'], 'c': 0})
    # a second process on its own timestep: batches at different times
    ts2 = ctx.int('ts', 1, 3)
    merge(processes, nest({'p': Proc({'name': 'p', 'ts': ts, 'd': d}),
                           'p2': Proc({'name': 'p2', 'ts': ts2, 'd': 1}),
                           'der_a': der_a}, base))
    merge(steps, nest({'der_b': der_b}, base))
    for n in ('p', 'der_a', 'der_b'):
        merge(topology, nest({n: {'s': up + ('s',), 'o': up + ('o',)}}, base))
    topology_p = topology
    for seg in base:
        topology_p = topology_p[seg]
    topology_p['p'] = {'s': up + ('s',)}
    topology_p['p2'] = {'s': up + ('s',)}
    CTX['spawn_issued'] = False
    CTX['ctx'] = ctx
    # (run-time generation is explored in the flat layout; the other layouts
    # keep their step set)
    if 'spawn' in cfg:
        spawn = cfg['spawn']
    else:
        spawn = ctx.flag('spawn') if layout == 'flat' else False
    if spawn:
        # a deriver created at run time takes part in every later phase
        processes['spawner'] = Spawner({'name': 'spawner',
                                        'ts': ctx.int('ts', 1, 2),
                                        'mode': cfg['spawn_as']
                                        if 'spawn_as' in cfg
                                        else ctx.choice('spawn_as', 3)})
        topology['spawner'] = {'s': ('s',), 'gen': ('gen',)}
        ctx.goal('deriver created at run time')

    def hook(data):
        LOG.append(('emit', data['table']))
    sink = stubs.reset_sink(hook)
    try:
        if cfg.get('via_store'):
            # the engine reads processes, steps and flow back from a store
            from vivarium.core.composer import Composite
            store = Composite(dict(
                processes=processes, steps=steps, flow=flow,
                topology=topology,
                state={'gen': {'c0': {'k': 1}}} if spawn else {}
            )).generate_store()
            e = Engine(store=store, emitter={'type': 'vsym_rec'},
                       display_info=False)
            ctx.goal('engine built from a generated store')
        else:
            e = Engine(processes=processes, steps=steps, flow=flow,
                       topology=topology, emitter={'type': 'vsym_rec'},
                       initial_state={'gen': {'c0': {'k': 1}}} if spawn
                       else None, display_info=False)
    except PathControl:
        raise
    except ValueError as err:
        ctx.check_poison()
        ctx.claim('C05.accepts', False, sig='dotdot-dependency-rejected'
                  if layout == 'split' else 'rejected',
                  info=lambda: dict(flow=flow, error=repr(err)))
        return
    ctx.claim('C05.accepts', True)
    e.update(ctx.int('iv', 1, cfg['IV']))

    log = list(LOG)
    info = lambda: dict(deps=deps, decl=decl, log=log)
    # ---- phases: parse the log
    i = 0
    phases = []

    def take_phase(i):
        ph = []
        while i < len(log) and log[i][0] in ('step', 'apply'):
            ph.append(log[i])
            i += 1
        return ph, i
    shape_ok = True
    spawned_before = set()     # indices of phases that follow a spawner batch
    ph, i = take_phase(i)
    phases.append(ph)
    shape_ok &= log[i:i + 2] == [('emit', 'configuration'), ('emit', 'history')]
    i += 2
    while i < len(log) and shape_ok:
        n_proc = 0
        while i < len(log) and log[i][0] == 'proc':
            n_proc += 1
            i += 1
        n_app = 0
        while i < len(log) and log[i][0] == 'apply_p':
            if log[i] == ('apply_p', 'spawn'):
                spawned_before.add(len(phases))
            n_app += 1
            i += 1
        if n_app == 0:
            # a pass that only started processes (nothing due): next pass
            shape_ok &= n_proc > 0
            continue
        ph, i = take_phase(i)
        phases.append(ph)
        shape_ok &= i < len(log) and log[i] == ('emit', 'history')
        i += 1
    ctx.claim('C05.phases', shape_ok and len(phases) >= 2, sig='phases',
              info=info)
    # ---- per phase
    anc = {n: set() for n in names}
    for n in names:
        for dd in deps[n]:
            anc[n] |= {dd} | anc[dd]
    layer = {}
    for n in names:
        layer[n] = 1 + max([layer[dd] for dd in deps[n]], default=0)
    if max(layer.values()) >= 3:
        ctx.goal('a chain of 3')
    if len(set(layer.values())) < len(names):
        ctx.goal('two steps in one layer')
    once = deps_ok = der_ok = layer_ok = True
    first_late = None
    if spawn and CTX['spawn_issued'] and spawned_before:
        first_late = min(spawned_before)
    for k_ph, ph in enumerate(phases):
        runs = [en for en in ph if en[0] == 'step']
        order = [en[1] for en in runs]
        late = ['late', 'late2'] if first_late is not None and \
            k_ph >= first_late else []
        if late:
            # derivers without flow run one at a time, in declaration order
            seq = [en[:2] for en in ph if en[1] in ('late', 'late2')]
            once &= seq == [('step', 'late'), ('apply', 'late'),
                            ('step', 'late2'), ('apply', 'late2')]
        once &= sorted(order) == sorted(names + ['der_a', 'der_b'] + late)
        once &= all(en[2] == 0 for en in runs)
        pos = {}
        for k, en in enumerate(ph):
            pos.setdefault(en[:2], k)
        for n in names:
            for a in anc[n]:
                deps_ok &= (('apply', a) in pos and ('step', n) in pos
                            and pos[('apply', a)] < pos[('step', n)])
        # derivers first, sequentially: step der_a, apply der_a, step der_b,
        # apply der_b, then the flow steps
        der_ok &= [en[:2] for en in ph[:4]] == [
            ('step', 'der_a'), ('apply', 'der_a'),
            ('step', 'der_b'), ('apply', 'der_b')]
        for a in runs:
            for b in runs:
                if a[1] in layer and b[1] in layer \
                        and layer[a[1]] == layer[b[1]]:
                    layer_ok &= a[3] == b[3]
    ctx.claim('C05.once', once, sig='once', info=info)
    ctx.claim('C05.deps', deps_ok, sig='deps', info=info)
    ctx.claim('C05.derivers_first', der_ok, sig='derivers', info=info)
    ctx.claim('C05.layer', layer_ok, sig='layer', info=info)
    # ---- values in every row
    vals = []
    for row in sink['rows']:
        x = row['s']['x']
        ref = {}
        for n in names:
            r = 1 + (names.index(n) + 1) * x
            for dd in deps[n]:
                r = r + ref[dd]
            ref[n] = r
            vals.append(EQ(row['o']['v_' + n], ref[n]))
        vals.append(EQ(row['o']['v_der_a'], 1 + 7 * x))
        vals.append(EQ(row['o']['v_der_b'], 1 + (1 + 7 * x)))
        if 'v_late' in row['o']:
            vals.append(EQ(row['o']['v_late'], 1 + 5 * x))
            vals.append(EQ(row['o'].get('v_late2'), 1 + (1 + 5 * x)))
        ctx.observe('x', x)
        for n in names:
            ctx.observe(n, row['o']['v_' + n])
    ctx.claim('C05.values', AND(vals), sig='values', info=info)


def rejects(ctx, cfg):
    kind = ctx.choice('kind', 3)
    a = FS({'name': 'a', 'deps': [], 'c': 1})
    b = FS({'name': 'b', 'deps': [], 'c': 1})
    topo = {n: {'s': ('s',), 'o': ('o',)} for n in 'ab'}
    flow = [{'a': [], 'b': [('zzz',)]},           # unknown dependency
            {'a': [('b',)], 'b': [('a',)]},       # cycle
            {'a': [('a',)], 'b': []}][kind]       # self-loop
    try:
        Engine(steps={'a': a, 'b': b}, flow=flow, topology=topo,
               emitter='null', display_info=False)
        raised = None
    except PathControl:
        raise
    except Exception as err:
        ctx.check_poison()
        raised = err
    ctx.claim('C05.rejects', isinstance(raised, ValueError),
              sig='rejects-%d' % kind, info=lambda: repr(raised))
