"""C03 - clock monotone, lands exactly on the end, run_for terminates."""
from vsym.core import (AND, OR, NOT, ite, EQ, IMPLIES, evaluate, UnwindCut,
                       PathControl)
from . import sched

PROPERTY = 'C03'
CLAIMS = {
    'C03.monotone': 'global time observed in every callback, at every scheduler '
                    'pass and after every call never decreases',
    'C03.bounded': 'global time never passes the end of the current call',
    'C03.lands': 'when a call returns, global time = start + interval',
    'C03.progress': 'every scheduler pass strictly advances the clock (ranking '
                    'function: with integer ticks this bounds the passes)',
    'C03.terminates': 'no call needs more than K scheduler passes (K above the '
                      'bound a progressing scheduler can need)',
    'C03.emit_once': 'history rows carry strictly increasing times',
    'C03.grid': 'with a precision p and timesteps on the 10^-p grid every '
                'clock value is on that grid or is the start / end of a '
                'requested call (concrete times)',
    'C03.runs': 'the scheduler raises no exception of its own',
}
OPTIONAL_CLAIMS = ('C03.terminates', 'C03.runs')
GOALS = {
    'quick': ['quiet poll', 'all polled processes quiet in one pass',
              'deferral across a call boundary', 'truncated interval',
              'empty composite'],
    'thorough': ['quiet poll', 'all polled processes quiet in one pass',
                 'deferral across a call boundary', 'truncated interval',
                 'empty composite'],
}
STUBS = ['stub processes: calculate_timestep/update_condition answer fresh '
         'symbolic values per poll (adaptive / cond-fresh) or one symbolic '
         'constant per process', 'recording user Emitter']
ASSUMPTIONS = ['time is the integers (ticks); timesteps >= 1; float time and '
               'round(float, p) are outside the technique (DESIGN.md C03)',
               'unwinding bound K scheduler passes per call; a path needing '
               'more is a C03.terminates counterexample where K exceeds the '
               'bound interval+1, otherwise counted as cut_unwinding']
BOUNDS = {
    'quick': 'configurations const(N<=3,M=2,B=4), adaptive(N=1,M=2,B=4; '
             'N=2,M=1,B=3), cond-const(N<=2,M=2,B=3), cond-fresh(N=1,M=2,B=3; '
             'N=2,M=1,B=3), cond-mixed (one unconditioned + one fresh-condition process, N=2,M=2,B=3), empty(N=0), precision in {None,0}; every force flag '
             'symbolic; K = B+2 passes per call; offgrid: precision 0 with concrete run lengths 0.5/1.5/2.5/1.0 and integer timesteps (N=0,1,2); dyadic: concrete timesteps 0.25/0.5/1.5 and run lengths 0.75/1.5/2.0 (times concrete floats chosen by forking, exact in binary)',
    'thorough': 'const(N=1,M=3,B=6; N=2,M=3,B=4; N=3,M=2,B=4; N=2,M=2,B=8), adaptive(N=1,M=3,B=4; N=2,M=2,B=3), '
                'cond-const(N=3,M=2,B=4), cond-fresh(N=2,M=2,B=3), wide '
                '(B=10^6, K=6)',
}
OUTSIDE = 'float time; processes created/deleted during the run (C10); ' \
          'more processes / calls / larger ranges than the bounds'


def _cfg(name, N, M, B, mode, cond, tier, **kw):
    c = dict(name=name, N=N, M=M, B=B, K=B + 2, mode=mode, cond=cond,
             forces='sym', use_update=True, precision=None,
             budget_s=100 if tier == 'quick' else 1500,
             crosscheck=30 if tier == 'thorough' else 0, validate=2)
    c.update(kw)
    return c


def jobs(tier):
    J = []
    if tier == 'quick':
        J.append(_cfg('empty', 0, 2, 4, 'const', 'none', tier))
        J.append(_cfg('const-N1', 1, 2, 4, 'const', 'none', tier))
        J.append(_cfg('const-N2', 2, 2, 4, 'const', 'none', tier))
        J.append(_cfg('const-N2-p0', 2, 2, 3, 'const', 'none', tier,
                      precision=0))
        J.append(_cfg('const-N3', 3, 1, 3, 'const', 'none', tier))
        J.append(_cfg('adaptive-N1', 1, 2, 4, 'adaptive', 'none', tier))
        J.append(_cfg('adaptive-N2', 2, 1, 3, 'adaptive', 'none', tier))
        J.append(_cfg('condconst-N1', 1, 2, 3, 'const', 'const', tier))
        J.append(_cfg('condconst-N2', 2, 2, 3, 'const', 'const', tier))
        J.append(_cfg('condfresh-N1', 1, 2, 3, 'const', 'fresh', tier))
        J.append(_cfg('condfresh-N2', 2, 1, 3, 'const', 'fresh', tier))
        J.append(_cfg('condfresh-adaptive-N1', 1, 2, 3, 'adaptive', 'fresh',
                      tier))
        J.append(_cfg('condmixed-N2-M2', 2, 2, 3, 'const', 'mixed', tier))
        J.append(_cfg('g0-condconst-N2', 2, 2, 3, 'const', 'const', tier, g0=3))
        J.append(_cfg('emitstep-N2', 2, 2, 3, 'const', 'none', tier,
                      emit_step=3))
        # off-grid run lengths with a precision: concrete dyadic intervals
        for N in (0, 1, 2):
            J.append(_cfg('offgrid-p0-N%d' % N, N, 2, 3, 'const', 'none', tier,
                          precision=0, ts_grid=[1, 2],
                          iv_grid=[0.5, 1.5, 2.5, 1.0], K=6, offgrid=True))
        J.append(_cfg('dyadic-N2', 2, 2, 3, 'const', 'none', tier,
                      ts_grid=[0.5, 1.5, 0.25], iv_grid=[0.75, 1.5, 2.0], K=12,
                      offgrid=True))
    else:
        J.append(_cfg('empty', 0, 3, 6, 'const', 'none', tier))
        for N, M, B in ((1, 3, 6), (2, 3, 4), (3, 2, 4), (2, 2, 8)):
            J.append(_cfg('const-N%d-M%d-B%d' % (N, M, B), N, M, B, 'const',
                          'none', tier))
        J.append(_cfg('const-N2-p0', 2, 2, 4, 'const', 'none', tier,
                      precision=0))
        J.append(_cfg('adaptive-N1', 1, 3, 4, 'adaptive', 'none', tier))
        J.append(_cfg('adaptive-N2', 2, 2, 3, 'adaptive', 'none', tier))
        J.append(_cfg('condconst-N3', 3, 2, 4, 'const', 'const', tier))
        J.append(_cfg('condfresh-N2', 2, 2, 3, 'const', 'fresh', tier))
        J.append(_cfg('condfresh-adaptive-N2', 2, 1, 3, 'adaptive', 'fresh',
                      tier))
        J.append(_cfg('condmixed-N2-M3', 2, 3, 3, 'const', 'mixed', tier))
        J.append(_cfg('g0-condconst-N2', 2, 3, 3, 'const', 'const', tier, g0=5))
        J.append(_cfg('emitstep-N2', 2, 3, 3, 'const', 'none', tier,
                      emit_step=4))
        J.append(_cfg('emitstep-condfresh-N2', 2, 2, 3, 'const', 'fresh', tier,
                      emit_step=3))
        for N in (0, 1, 2):
            J.append(_cfg('offgrid-p0-N%d' % N, N, 3, 3, 'const', 'none', tier,
                          precision=0, ts_grid=[1, 2, 3],
                          iv_grid=[0.5, 1.5, 2.5, 1.0, 0.25], K=8,
                          offgrid=True))
        J.append(_cfg('dyadic-N2', 2, 2, 3, 'const', 'none', tier,
                      ts_grid=[0.5, 1.5, 0.25, 1.0], iv_grid=[0.75, 1.5, 2.0],
                      K=14, offgrid=True))
        J.append(_cfg('wide-N2', 2, 2, 10 ** 6, 'const', 'none', tier, K=6,
                      wide=True))
        J.append(_cfg('wide-adaptive-N2', 2, 1, 10 ** 6, 'adaptive', 'none',
                      tier, K=5, wide=True))
    return J


def _first_decrease(run, m):
    vals = [(l, evaluate(g, m)) for l, g in run.clock]
    for i in range(len(vals) - 1):
        if vals[i][1] is None or vals[i + 1][1] is None:
            return None
        if vals[i + 1][1] < vals[i][1]:
            return i
    return None


def clock_signature(run, m):
    """Why did the clock fail to advance?  Computed from the concrete trace."""
    feats = []
    stale = False
    quiet_only = False
    for n, p in run.procs.items():
        deferred_ts = None
        for q in p.polls:
            g, fr, ts = (evaluate(q['g'], m), evaluate(q['front'], m),
                         evaluate(q['ts'], m))
            if None in (g, fr, ts):
                continue
            if fr < g and fr + ts <= g and q['cond'] is not False:
                if p.mode == 'adaptive' and deferred_ts is not None \
                        and ts < deferred_ts:
                    feats.append('adaptive-repoll-shorter-after-deferral')
                else:
                    feats.append('stale-front-due-not-after-clock')
                stale = True
            # a deferral: polled, not called, not quiet
            if q['call'] is None and q['cond'] is None:
                deferred_ts = ts
            else:
                deferred_ts = None
    if not stale:
        quiet = any(q['cond'] is False for p in run.procs.values()
                    for q in p.polls)
        feats.append('quiet-poll-present' if quiet else 'no-quiet-poll')
    return '+'.join(sorted(set(feats)))


def body(ctx, cfg):
    run = sched.build(ctx, cfg)
    e = run.engine
    sig = lambda m: clock_signature(run, m)
    info = lambda: dict(note='see model; describe() needs a model')
    crashed = None
    try:
        try:
            sched.drive(ctx, cfg, run)
        except UnwindCut:
            if not cfg.get('wide') and not cfg.get('offgrid'):
                ctx.claim('C03.terminates', False, sig=sig,
                          info=lambda: 'more than K=%d passes' % cfg['K'])
            raise
        except PathControl:
            raise
        except AssertionError as err:
            ctx.check_poison()
            crashed = err
        except Exception as err:
            ctx.check_poison()
            ctx.claim('C03.runs', False,
                      sig='%s' % type(err).__name__,
                      info=lambda: repr(err))
            crashed = err
    finally:
        _claims(ctx, cfg, run, sig)
    if crashed is not None:
        # _check_complete's assertion belongs to C02
        ctx.cut_foreign(crashed)


def _claims(ctx, cfg, run, sig):
    e = run.engine
    gs = [g for _, g in run.clock]
    ctx.claim('C03.monotone', AND([b >= a for a, b in zip(gs, gs[1:])]),
              sig=sig, info=lambda: [(l, repr(g)) for l, g in run.clock][:60])
    # bounded: every clock sample inside call j is <= end_j
    bounded = []
    j = -1
    for label, g in run.clock:
        if label == 'call':
            j += 1
        if j >= 0:
            bounded.append(g <= run.calls[j]['end'])
    ctx.claim('C03.bounded', AND(bounded), sig=sig)
    lands = [EQ(c['g_after'], c['end']) for c in run.calls if c['returned']]
    ctx.claim('C03.lands', AND(lands), sig=sig)
    progress = []
    for ps in run.passes:
        progress += [b > a for a, b in zip(ps, ps[1:])]
    ctx.claim('C03.progress', AND(progress), sig=sig)
    times = [r['time'] for r in run.sink['rows']]
    ctx.claim('C03.emit_once', AND([b > a for a, b in zip(times, times[1:])]),
              sig=sig)
    if cfg.get('precision') is not None and cfg.get('ts_grid'):
        # concrete times: the 10^-p grid clause
        p10 = 10 ** cfg['precision']
        ends = set()
        for c in run.calls:
            ends.add(c['start'])
            ends.add(c['end'])
        off = [g for _, g in run.clock
               if g not in ends and abs(g * p10 - round(g * p10)) > 1e-12]
        off += [t for t in times
                if t not in ends and abs(t * p10 - round(t * p10)) > 1e-12]
        ctx.claim('C03.grid', not off, sig='grid',
                  info=lambda: dict(off_grid=off, calls=[
                      (c['start'], c['end']) for c in run.calls]))
    for l, g in run.clock:
        ctx.observe(l, g)
    # reachability witnesses
    if cfg['N'] == 0:
        ctx.goal('empty composite')
    for p in run.procs.values():
        if any(q['cond'] is False for q in p.polls):
            ctx.goal('quiet poll')
        for q in p.polls:
            if q['call'] is None and q['cond'] is None:
                ctx.goal('deferral across a call boundary')
        for c in p.ncalls:
            tr = c['start'] + c['asked'] > c['end']
            if c['force'] and 'truncated interval' not in ctx.goals and (
                    tr is True or (ctx.symbolic and tr is not False and
                                   ctx.solver.check_assuming(tr.s) == 'sat')):
                ctx.goal('truncated interval')
    # a pass in which every polled process was quiet
    by_pass = {}
    for p in run.procs.values():
        for q in p.polls:
            by_pass.setdefault((q['call_index'], q['pass_index']),
                               []).append(q['cond'])
    if any(all(c is False for c in v) for v in by_pass.values()):
        ctx.goal('all polled processes quiet in one pass')
