"""C18 - timeseries and query views of emitted data lose nothing."""
import copy

from vivarium.core.emitter import (
    RAMEmitter, timeseries_from_data, path_timeseries_from_data)
from vivarium.library.topology import get_in
from vivarium.library.units import units

from vsym.core import AND, OR, NOT, EQ, is_sym
from vsym import stubs   # registers the serializers for the proxies

PROPERTY = 'C18'
CLAIMS = {
    'C18.aligned': 'every list of the embedded timeseries has the length of the '
                   'time vector and its i-th element is the raw value at the '
                   'i-th time (functions and RAMEmitter accessors)',
    'C18.roundtrip': 'the path timeseries read back cell by cell reproduces the '
                     'raw data',
    'C18.query': 'a query returns, for every time, exactly the queried variables '
                 'that exist, with their emitted values, whatever the values',
}
GOALS = {'quick': ['falsy value possible', 'partial query',
                   'history inserted out of time order',
                   'queried variable missing at one time',
                   'two rows emitted for one time',
                   'variable appearing under a store that was empty at first',
                   'hash-equal values of different types'],
         'thorough': ['falsy value possible', 'partial query',
                      'history inserted out of time order',
                      'queried variable missing at one time',
                      'two rows emitted for one time',
                      'variable appearing under a store that was empty at first',
                      'hash-equal values of different types']}
STUBS = ['RAMEmitter.saved_data filled directly with raw data (the accessors '
         'under test read it; no orjson boundary crossed); the emit-same-time '
         'job goes through the real RAMEmitter.emit (values concretised by '
         'forking at the serializer)']
ASSUMPTIONS = ['values: symbolic ints in [-2,2], symbolic booleans, and a choice '
               'over "", [], "z", [1]; quantities (pint) are outside the claim']
BOUNDS = {'quick': '<=3 times, 3 tree shapes (nesting <=3), 3-4 variables, all '
                   'query subsets',
          'thorough': '<=4 times, 3 tree shapes, all query subsets'}
OUTSIDE = 'quantities, DatabaseEmitter (MongoDB)'

FALSY = ['', [], 'z', [1]]
SHAPES = {
    'A': [('a', 'x'), ('a', 'f'), ('b', 'c', 's')],
    'B': [('x',), ('f',), ('s',)],
    'C': [('a', 'b', 'x'), ('a', 'b', 'f'), ('a', 's'), ('d', 'x')],
    # a nested variable and a nested store that are themselves called 'time'
    'D': [('clock', 'time'), ('env', 'time', 'x'), ('env', 'f')],
}


def jobs(tier):
    out = []
    for shape in SHAPES:
        for nt in ((2, 3) if tier == 'quick' else (2, 3, 4)):
            if shape == 'D' and nt == 3 and tier == 'quick':
                continue
            out.append(dict(name='shape%s-T%d' % (shape, nt), shape=shape,
                            nt=nt, budget_s=100 if tier == 'quick' else 900,
                            crosscheck=20 if tier == 'thorough' else 0))
        out.append(dict(name='shape%s-missing' % shape, shape=shape,
                        nt=3 if tier == 'quick' else 4, part='missing',
                        budget_s=100 if tier == 'quick' else 600))
    out.append(dict(name='emit-same-time', part='emit', budget_s=100))
    out.append(dict(name='late-variable', part='late', budget_s=60))
    out.append(dict(name='types-kept', part='types', budget_s=60))
    return out


def assoc(d, path, v):
    for k in path[:-1]:
        d = d.setdefault(k, {})
    d[path[-1]] = v


def body(ctx, cfg):
    if cfg.get('part') == 'emit':
        return emit_merge(ctx, cfg)
    if cfg.get('part') == 'late':
        return late_variable(ctx, cfg)
    if cfg.get('part') == 'types':
        return types_kept(ctx, cfg)
    paths = SHAPES[cfg['shape']]
    # insertion order of the raw data: ascending (what the engine produces),
    # descending or rotated (merged / late data); alignment is claimed by
    # looking the raw value up under the time the vector names
    base_times = list(range(cfg['nt']))
    missing_only = cfg.get('part') == 'missing'
    order = 0 if missing_only else ctx.choice('order', 3)
    times = [base_times, base_times[::-1],
             base_times[1:] + base_times[:1]][order]
    if order:
        ctx.goal('history inserted out of time order')
    raw = {}
    data = {}
    # one falsy/odd kind at one (solver-chosen) time, "z" elsewhere
    kind_k = 0 if missing_only else ctx.choice('k', len(FALSY))
    kind_t = 0 if missing_only else ctx.choice('kt', len(times))
    for t in times:
        data[t] = {}
        for p in paths:
            kind = p[-1]
            if kind == 'x':
                v = ctx.int('x', -2, 2)
            elif kind == 'f':
                v = ctx.bool('f')
            else:
                v = copy.copy(FALSY[kind_k]) if t == kind_t else 'z'
            raw[(t, p)] = v
            assoc(data[t], p, v)
    ctx.goal('falsy value possible')
    # a variable with units next to the first path: magnitudes are concrete
    # (pint), chosen by the solver-driven choice; its series is keyed
    # (name, unit string) and must list every magnitude
    qpath = paths[0][:-1] + ('len',)
    qmags = [[1.0, 2.0, 3.0, 4.0], [0.0, 0.0, 5.0, 0.0]][ctx.choice('qm', 2)]
    for i, t in enumerate(times):
        assoc(data[t], qpath, qmags[i] * units.um)

    def same(a, b):
        if is_sym(a) or is_sym(b):
            return EQ(a, b)
        return type(a) is type(b) and a == b

    if missing_only:
        return query_missing(ctx, times, paths, data, raw, same)
    # ---- embedded timeseries (function and accessor)
    emitter = RAMEmitter({})
    emitter.saved_data = copy.deepcopy(data)
    for name, ts in (('function', timeseries_from_data(copy.deepcopy(data))),
                     ('accessor', emitter.get_timeseries())):
        tv = ts.get('time')
        cl = [isinstance(tv, list) and sorted(tv) == sorted(times)]
        tv = tv if cl[0] else times
        for p in paths:
            lst = get_in(ts, p)
            ok = isinstance(lst, list) and len(lst) == len(times)
            cl.append(ok)
            if ok:
                cl += [same(lst[i], raw[(t, p)]) for i, t in enumerate(tv)]
        qkey = qpath[:-1] + ((qpath[-1], 'micrometer'),)
        qs = get_in(ts, qkey)
        cl.append(isinstance(qs, list) and
                  list(qs) == [qmags[times.index(t)] for t in tv])
        ctx.claim('C18.aligned', AND(cl), sig='aligned-' + name,
                  info=lambda: dict(data=data, timeseries=ts))
    # ---- path timeseries
    for name, pts in (('function', path_timeseries_from_data(
            copy.deepcopy(data))), ('accessor', emitter.get_path_timeseries())):
        qkey = qpath[:-1] + ((qpath[-1], 'micrometer'),)
        tv = pts.get('time')
        tv_ok = isinstance(tv, list) and sorted(tv) == sorted(times)
        tv = tv if tv_ok else times
        cl = [tv_ok,
              set(pts.keys()) == set(paths) | {'time', qkey},
              list(pts.get(qkey, [])) == [qmags[times.index(t)] for t in tv]]
        for p in paths:
            lst = pts.get(p)
            ok = isinstance(lst, list) and len(lst) == len(times)
            cl.append(ok)
            if ok:
                cl += [same(lst[i], raw[(t, p)]) for i, t in enumerate(tv)]
        ctx.claim('C18.roundtrip', AND(cl), sig='roundtrip-' + name,
                  info=lambda: dict(data=data, path_timeseries=pts))
    # ---- query: a subset of the paths plus one path that does not exist
    sel = [p for p in paths if ctx.flag('q')]
    ctx.note('query', sel)
    if len(sel) < len(paths):
        ctx.goal('partial query')
    if sel:
        query = sel + [('nope', 'x')]
        got = emitter.get_data(query)
        cl = [sorted(got.keys()) == sorted(times)]
        for t in times:
            row = got.get(t, {})
            for p in sel:
                v = get_in(row, p, KeyError)
                cl.append(False if v is KeyError else same(v, raw[(t, p)]))
            leaves = set()

            def walk(d, pre=()):
                for k, v in d.items():
                    if isinstance(v, dict):
                        walk(v, pre + (k,))
                    else:
                        leaves.add(pre + (k,))
            walk(row)
            cl.append(leaves <= set(sel))
        ctx.claim('C18.query', AND(cl), sig='query',
                  info=lambda: dict(data=data, query=query, got=got))


def emit_merge(ctx, cfg):
    """The real RAMEmitter.emit (serialize_value / orjson; symbolic values are
    concretised by forking): two rows emitted for one time - as float and as
    int - that share a top-level store and carry different variables are both
    kept, in the raw data and in every view."""
    em = RAMEmitter({})
    v = [ctx.int('v', -1, 1) for _ in range(5)]
    share = ctx.flag('share_top')
    t_dup = 1 + ctx.choice('tdup', 2)
    rows = []
    for t in (0, 1, 2):
        if t == t_dup:
            rows.append({'time': float(t), 'a': {'x': v[t]}, 'b': {'z': v[3]}})
            second = {'time': t, ('a' if share else 'c'): {'y': v[4]}}
            rows.append(second)
        else:
            rows.append({'time': t, 'a': {'x': v[t]}, 'b': {'z': v[3]}})
    for r in rows:
        em.emit({'table': 'history', 'data': dict(r)})
    ctx.goal('two rows emitted for one time')
    got = em.get_data()
    exp = {}
    for r in rows:
        d = exp.setdefault(r['time'], {})
        for k, sub in r.items():
            if k != 'time':
                d.setdefault(k, {}).update(sub)
    cl = [sorted(got.keys()) == sorted(exp.keys())]
    for t, d in exp.items():
        g = got.get(t, {})
        cl.append(set(g) == set(d))
        for k, sub in d.items():
            cl.append(isinstance(g.get(k), dict) and set(g[k]) == set(sub))
            if isinstance(g.get(k), dict):
                cl += [EQ(g[k][kk], vv) for kk, vv in sub.items()
                       if kk in g[k]]
    ctx.claim('C18.roundtrip', AND(cl), sig='emit-same-time-rows-merged',
              info=lambda: dict(rows=rows, stored=got))
    q = em.get_data([('a', 'x')])
    cl = [sorted(q.keys()) == sorted(exp.keys())]
    for t in exp:
        cl.append(EQ(get_in(q.get(t, {}), ('a', 'x'), 'missing'),
                     exp[t]['a']['x']))
    ctx.claim('C18.query', AND(cl), sig='query-after-same-time-rows',
              info=lambda: dict(rows=rows, got=q))
    ts = em.get_timeseries()
    ctx.claim('C18.aligned', AND(
        [len(ts.get('time', [])) == 3,
         len(get_in(ts, ('a', 'x'), [])) == 3]
        + [EQ(x, exp[t]['a']['x']) for x, t in zip(
            get_in(ts, ('a', 'x'), []), ts.get('time', []))]),
        sig='aligned-after-same-time-rows',
        info=lambda: dict(rows=rows, timeseries=ts))


def types_kept(ctx, cfg):
    """Concrete values (chosen by forking, nothing symbolic: hash-equal values
    of different types are the point): 0 / False / 0.0, 1 / True / 1.0 and
    2 / 2.0 in one history come back from every view with their own types."""
    orders = [[False, 0, 0.0], [0.0, False, 0], [0, 0.0, False]]
    first = orders[ctx.choice('order', 3)]
    data = {0: {'s': {'a': first[0], 'b': first[1], 'c': first[2]}},
            1: {'s': {'a': True, 'b': 1, 'c': 1.0}},
            2: {'s': {'a': False, 'b': 2, 'c': 2.0}}}
    em = RAMEmitter({})
    em.saved_data = copy.deepcopy(data)
    views = {'timeseries': em.get_timeseries(),
             'deserialized': em.get_data_deserialized(),
             'query': em.get_data([('s', 'a'), ('s', 'b'), ('s', 'c')])}
    ok = []
    for k in 'abc':
        want = [data[t]['s'][k] for t in (0, 1, 2)]
        got = get_in(views['timeseries'], ('s', k), [])
        ok.append(len(got) == 3 and all(
            type(g) is type(w) and g == w for g, w in zip(got, want)))
        for name in ('deserialized', 'query'):
            for i, t in enumerate((0, 1, 2)):
                g = get_in(views[name].get(t, {}), ('s', k), 'missing')
                ok.append(type(g) is type(want[i]) and g == want[i])
    pts = em.get_path_timeseries()
    for k in 'abc':
        want = [data[t]['s'][k] for t in (0, 1, 2)]
        got = pts.get(('s', k), [])
        ok.append(len(got) == 3 and all(
            type(g) is type(w) and g == w for g, w in zip(got, want)))
    ctx.goal('hash-equal values of different types')
    ctx.claim('C18.roundtrip', all(ok), sig='types-kept',
              info=lambda: dict(data=data, views={k: repr(v) for k, v in
                                                  views.items()}))


def late_variable(ctx, cfg):
    """Beyond the premise of the first sentence of C18 (variables that exist
    at every time), but within "lose nothing": a store that is empty when it
    is first seen and gains a variable later.  The emitted values of that
    variable are all there, in time order (whatever a view puts for the times
    at which the variable did not exist)."""
    x = [ctx.int('x', -2, 2) for _ in range(3)]
    m = [ctx.int('m', -2, 2) for _ in range(2)]
    deep = ctx.flag('one_level_down')
    def wrap(d):
        return {'cell': d} if deep else d
    data = {0: wrap({'agents': {}, 'n': x[0]}),
            1: wrap({'agents': {'a1': {'mass': m[0]}}, 'n': x[1]}),
            2: wrap({'agents': {'a1': {'mass': m[1]}}, 'n': x[2]})}
    pre = ('cell',) if deep else ()
    em = RAMEmitter({})
    em.saved_data = copy.deepcopy(data)
    views = {'embedded-function': timeseries_from_data(copy.deepcopy(data)),
             'embedded-accessor': em.get_timeseries()}
    cl = []
    for name, ts in views.items():
        series = get_in(ts, pre + ('agents', 'a1', 'mass'), None)
        vals = [v for v in (series or []) if v is not None]
        cl.append(len(vals) == 2 and AND(EQ(vals[0], m[0]), EQ(vals[1], m[1])))
        ns = get_in(ts, pre + ('n',), [])
        cl.append(len(ns) == 3 and AND([EQ(a, b) for a, b in zip(ns, x)]))
    for name, pts in (('path-function', path_timeseries_from_data(
            copy.deepcopy(data))), ('path-accessor', em.get_path_timeseries())):
        series = pts.get(pre + ('agents', 'a1', 'mass'))
        vals = [v for v in (series or []) if v is not None]
        cl.append(len(vals) == 2 and AND(EQ(vals[0], m[0]), EQ(vals[1], m[1])))
    ctx.goal('variable appearing under a store that was empty at first')
    ctx.claim('C18.roundtrip', AND(cl), sig='late-variable-under-empty-store',
              info=lambda: dict(data=data, views={k: repr(v) for k, v in
                                                  views.items()}))


def query_missing(ctx, times, paths, data, raw, same):
    # ---- query over a history in which one variable is missing at one time
    # (solver-chosen): it is returned at exactly the times it was emitted
    gone_t = times[ctx.choice('gt', len(times))]
    gone_p = paths[ctx.choice('gp', len(paths))]
    data2 = copy.deepcopy(data)
    node = data2[gone_t]
    for k in gone_p[:-1]:
        node = node[k]
    del node[gone_p[-1]]
    em2 = RAMEmitter({})
    em2.saved_data = data2
    got2 = em2.get_data(list(paths))
    cl = [sorted(got2.keys()) == sorted(times)]
    for t in times:
        row = got2.get(t, {})
        leaves = {}

        def walk2(d, pre=()):
            for k, v in d.items():
                if isinstance(v, dict) and v:
                    walk2(v, pre + (k,))
                elif not isinstance(v, dict):
                    leaves[pre + (k,)] = v
        walk2(row)
        want = [p for p in paths if not (t == gone_t and p == gone_p)]
        cl.append(set(leaves) == set(want))
        cl += [same(leaves[p], raw[(t, p)]) for p in want if p in leaves]
    ctx.goal('queried variable missing at one time')
    ctx.claim('C18.query', AND(cl), sig='query-variable-missing-at-a-time',
              info=lambda: dict(data=data2, missing=(gone_t, gone_p),
                                got=got2))
