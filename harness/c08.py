"""C08 - updates are combined with the current value by the declared updater."""
import copy

from vivarium.core.store import Store
from vivarium.core.engine import Engine
from vivarium.core.process import Process
from vivarium.core.registry import (
    updater_registry, update_merge, update_set, update_null, update_accumulate,
    update_nonnegative_accumulate, update_dictionary)
from vivarium.library.units import units

from vsym.core import AND, OR, NOT, EQ, ite, is_sym, PathControl
from vsym.resolve import nest, get

PROPERTY = 'C08'
CLAIMS = {
    'C08.functions': 'accumulate = v+u, set = u, null = v, nonnegative_accumulate '
                     '= max(v+u, 0) for all integer v, u',
    'C08.kernel': 'nonnegative_accumulate decided on an SMT encoding of its '
                  'current source: for all doubles (inf, NaN, signed zeros, '
                  'subnormals) the result is >= 0 or NaN; for all 62-bit '
                  'integers it is max(v+u, 0)',
    'C08.merge': 'merge returns the merger of current and new: union of keys, new '
                 'wins on shared keys (recursively for dictionary values), '
                 'current is not modified',
    'C08.dict_value': 'dict_value: _add inserts key -> state, _delete removes the '
                      'keys, an existing key is updated with the given fields, an '
                      'unknown key raises',
    'C08.store': 'through Store.apply_update each variable ends as f(v, u) for '
                 'its declared updater, the updater named in the update wins, a '
                 'user function is called, _multi_update lists are applied left '
                 'to right, unmentioned variables keep value and identity, the '
                 'update handed in is not modified',
    'C08.batch': 'two updates of one process for one variable in one batch are '
                 'both applied, one after the other (non-commuting user '
                 'updater sees both, in port order)',
    'C08.units': 'a variable with units holds a quantity in its declared units '
                 'after an update expressed in any compatible unit',
}
GOALS = {'quick': ['negative sum', 'shared key in merge', 'new key in merge'],
         'thorough': ['negative sum', 'shared key in merge', 'new key in merge']}
STUBS = ['user updater function registered through the schema; stub process '
         'with two ports wired to one variable']
ASSUMPTIONS = ['integers (mathematical); float behaviour of '
               'nonnegative_accumulate is decided by the kernel translator '
               '(QF_FP), see coverage.kernels; numpy arrays and pint magnitudes '
               'are concrete (choice-driven), not solver-decided']
BOUNDS = {'quick': 'values in [-9,9]; dictionaries over keys {a,b,c} with '
                   'symbolic presence bits, one nested level; store depth 0..2',
          'thorough': 'same with 2 nested levels in merge and 3 store depths'}
OUTSIDE = 'arrays, quantities\' magnitude arithmetic (pint float code)'


def part_kernel(ctx, cfg):
    from . import kern
    from vsym.core import HarnessError
    r = kern.run_kernel(cfg['kernel'], cross=cfg.get('cross', False))
    ctx.report('kernels', r['report'])
    if r['answer'] == 'cannot-encode':
        # the translator does not cover the function's current source: the
        # kernel claim is not made on this tree (reported, not approximated)
        ctx.note('kernel_not_encodable', r['report'].get('reason', ''))
        ctx.report('kernels_not_encodable', cfg['kernel'])
        print('NOTE property=%s kernel %s cannot be encoded on this source '
              '(%s): claim not made' % (PROPERTY, cfg['kernel'],
                                        r['report'].get('reason', '')))
        return
    if r['answer'] == 'undecided':
        raise HarnessError('kernel %s: %s %s' % (
            cfg['kernel'], r['answer'], r['report'].get('reason', '')))
    ctx.claim('C08.kernel', r['answer'] == 'holds',
              sig='kernel:' + cfg['kernel'], info=lambda: r['cex'])


def jobs(tier):
    q = tier == 'quick'
    out = [dict(name='kernel-%s' % k, part='kernel', kernel=k, budget_s=300,
                validate=0, cross=not q)
           for k in ('nonneg_float', 'nonneg_int')]
    out += [dict(name='functions', part='functions', budget_s=60),
           dict(name='merge', part='merge', nested=True, budget_s=100 if q
                else 900, crosscheck=0 if q else 20),
           dict(name='dict_value', part='dict_value', budget_s=100),
           dict(name='batch', part='batch', budget_s=60),
           dict(name='units', part='units', budget_s=60),
           dict(name='arrays', part='arrays', budget_s=60)]
    for depth in (0, 1, 2):
        out.append(dict(name='store-d%d' % depth, part='store', depth=depth,
                        budget_s=100))
    return out


def body(ctx, cfg):
    return globals()['part_' + cfg['part']](ctx, cfg)


def part_functions(ctx, cfg):
    v = ctx.int('v', -9, 9)
    u = ctx.int('u', -9, 9)
    nn = update_nonnegative_accumulate(v, u)
    if ctx.symbolic and ctx.solver.check_assuming((v + u < 0).s) == 'sat':
        ctx.goal('negative sum')
    ctx.claim('C08.functions', AND(
        EQ(update_accumulate(v, u), v + u), EQ(update_set(v, u), u),
        EQ(update_null(v, u), v),
        EQ(nn, ite(v + u >= 0, v + u, 0))), sig='functions',
        info=lambda: dict(v=v, u=u, nn=nn))
    ctx.observe('nn', nn)
    # registry names map to these functions
    names = {'accumulate': update_accumulate, 'set': update_set,
             'null': update_null, 'merge': update_merge,
             'nonnegative_accumulate': update_nonnegative_accumulate,
             'dict_value': update_dictionary}
    ctx.claim('C08.functions', all(updater_registry.access(k) is f
                                   for k, f in names.items()), sig='registry')


def _sym_dict(ctx, label, keys, nested):
    d = {}
    for k in keys:
        if not ctx.flag('has_' + label):
            continue
        if nested and k == 'c':
            d[k] = {kk: ctx.int(label, -5, 5) for kk in ('x', 'y')
                    if ctx.flag('has_' + label)}
        else:
            d[k] = ctx.int(label, -5, 5)
    return d


def _merged(cur, new):
    out = dict(cur)
    for k, v in new.items():
        if isinstance(v, dict) and isinstance(out.get(k), dict):
            out[k] = _merged(out[k], v)
        else:
            out[k] = v
    return out


def _same_tree(a, b):
    if isinstance(a, dict) or isinstance(b, dict):
        if not (isinstance(a, dict) and isinstance(b, dict)):
            return False
        if set(a) != set(b):
            return False
        return AND([_same_tree(a[k], b[k]) for k in a])
    if a is None or b is None:
        return a is b
    return EQ(a, b)


def part_merge(ctx, cfg):
    cur = _sym_dict(ctx, 'cur', ('a', 'b', 'c'), cfg['nested'])
    new = _sym_dict(ctx, 'new', ('a', 'b', 'c'), cfg['nested'])
    if set(cur) & set(new):
        ctx.goal('shared key in merge')
    if set(new) - set(cur):
        ctx.goal('new key in merge')
    cur0 = copy.deepcopy(cur)
    new0 = copy.deepcopy(new)
    out = update_merge(cur, new)
    exp = _merged(cur0, new0)
    ctx.claim('C08.merge', AND(_same_tree(out, exp), _same_tree(cur, cur0),
                               _same_tree(new, new0)),
              sig='merge', info=lambda: dict(current=cur0, new=new0, got=out,
                                             expected=exp))
    # three levels deep: an update naming one key of a third-level dictionary
    # keeps the sibling keys there
    k1, k2, k3 = (ctx.int('k', -5, 5) for _ in range(3))
    deep_cur = {'t': {'g': {'kcat': k1, 'km': k2}, 'h': {'w': 1}}}
    deep_new = {'t': {'g': {'kcat': k3}}}
    deep_cur0 = copy.deepcopy(deep_cur)
    deep_out = update_merge(deep_cur, deep_new)
    ctx.claim('C08.merge', AND(_same_tree(deep_out, {
        't': {'g': {'kcat': k3, 'km': k2}, 'h': {'w': 1}}}),
        _same_tree(deep_cur, deep_cur0)), sig='merge-three-levels',
        info=lambda: dict(current=deep_cur0, new=deep_new, got=deep_out))


def part_dict_value(ctx, cfg):
    cur = {k: {'f': ctx.int('f', -5, 5), 'g': ctx.int('g', -5, 5)}
           for k in ('a', 'b') if ctx.flag('has')}
    cur0 = copy.deepcopy(cur)
    upd = {}
    exp = copy.deepcopy(cur)
    if ctx.flag('add'):
        st = {'f': ctx.int('nf', -5, 5)}
        upd['_add'] = [{'key': 'n', 'state': st}]
        exp['n'] = st
    target = ['a', 'b', 'zz'][ctx.choice('t', 3)]
    if ctx.flag('mod'):
        nv = ctx.int('nv', -5, 5)
        upd[target] = {'f': nv}
        if target in exp:
            exp[target] = dict(exp[target], f=nv)
    if ctx.flag('del') and 'b' in cur:
        upd['_delete'] = ['b']
        exp.pop('b', None)
    upd0 = copy.deepcopy(upd)
    try:
        out = update_dictionary(cur, upd)
        raised = None
    except PathControl:
        raise
    except Exception as err:
        ctx.check_poison()
        raised = err
    bad_key = target in upd and target not in cur0
    if bad_key:
        ok = raised is not None
    else:
        ok = AND(raised is None, raised is None and _same_tree(out, exp),
                 _same_tree(upd, upd0))
    ctx.claim('C08.dict_value', ok, sig='dict_value',
              info=lambda: dict(current=cur0, update=upd0, expected=exp,
                                raised=repr(raised)))


def part_store(ctx, cfg):
    v = ctx.int('v', -9, 9)
    u = ctx.int('u', -9, 9)
    u2 = ctx.int('u2', -9, 9)
    calls = []

    def user(cur, new):
        calls.append((cur, new))
        return cur - new
    empties = []

    def reduce_to_u2(acc, path, node):
        return u2          # the reduction yields u2 whatever the tree holds

    def user_empty(cur, new):
        empties.append(new)
        return cur + 1
    pre = ('n1', 'n2')[:cfg['depth']]
    leaves = {
        'acc': {'_default': v}, 'set': {'_default': v, '_updater': 'set'},
        'null': {'_default': v, '_updater': 'null'},
        'nn': {'_default': v, '_updater': 'nonnegative_accumulate'},
        'usr': {'_default': v, '_updater': user},
        'untouched': {'_default': v}, 'ovr': {'_default': v},
        'ovr_null': {'_default': v},
        'multi': {'_default': v},
        'multiset': {'_default': v, '_updater': 'set'},
        # dictionary-valued leaves: the empty dict is a value like any other
        'setd': {'_default': {'b': v}, '_updater': 'set'},
        'usrd': {'_default': v, '_updater': user_empty},
        'multid': {'_default': {'b': v}, '_updater': 'set'},
        # updates carrying a reduction over the tree and their own updater
        'red': {'_default': v}, 'red_null': {'_default': v}}
    st = Store(nest(leaves, pre))
    st.apply_defaults()
    node = st.get_path(pre)
    ids = {k: id(n) for k, n in node.inner.items()}
    upd = {'acc': u, 'set': u, 'null': u, 'nn': u, 'usr': u,
           'ovr': {'_updater': 'set', '_value': u},
           'ovr_null': {'_updater': 'null', '_value': u},
           'multi': {'_multi_update': [u, u2]},
           'multiset': {'_multi_update': [u, u2]},
           'setd': {}, 'usrd': {},
           'multid': {'_multi_update': [{'k': u}, {}]},
           'red': {'_reduce': {'from': ('..',), 'reducer': reduce_to_u2,
                               'initial': 0}, '_updater': 'set'},
           'red_null': {'_reduce': {'from': ('..',),
                                    'reducer': reduce_to_u2, 'initial': 0},
                        '_updater': 'null'}}
    full = nest(upd, pre)
    full0 = copy.deepcopy(full)
    st.apply_update(full)
    g = get(st.get_value(), pre)
    cl = [EQ(g['acc'], v + u), EQ(g['set'], u), EQ(g['null'], v),
          EQ(g['nn'], ite(v + u >= 0, v + u, 0)), EQ(g['usr'], v - u),
          len(calls) == 1, EQ(g['untouched'], v), EQ(g['ovr'], u),
          EQ(g['ovr_null'], v), EQ(g['multi'], v + u + u2),
          EQ(g['multiset'], u2),
          g['setd'] == {}, EQ(g['usrd'], v + 1), empties == [{}],
          g['multid'] == {},
          EQ(g['red'], u2), EQ(g['red_null'], v),
          {k: id(n) for k, n in node.inner.items()} == ids,
          _same_tree(_strip(full), _strip(full0))]
    for k in ('acc', 'nn', 'usr', 'multi', 'multiset'):
        ctx.observe(k, g[k])
    ctx.claim('C08.store', AND(cl), sig='store',
              info=lambda: dict(v=v, u=u, u2=u2, got=g))
    # second round: after an update that named its own updater, the variable's
    # declared updater is used again (also inside one _multi_update list)
    u3 = ctx.int('u3', -9, 9)
    st.apply_update(nest({'ovr': u3, 'ovr_null': u3, 'acc': u3, 'set': u3,
                          'multi': {'_multi_update': [
                              {'_updater': 'set', '_value': u}, u3]},
                          'multiset': {'_multi_update': [
                              {'_updater': 'accumulate', '_value': u}, u3]}},
                         pre))
    g2 = get(st.get_value(), pre)
    cl2 = [EQ(g2['ovr'], u + u3), EQ(g2['ovr_null'], v + u3),
           EQ(g2['acc'], v + u + u3), EQ(g2['set'], u3),
           EQ(g2['multi'], u + u3), EQ(g2['multiset'], u3),
           EQ(g2['untouched'], v)]
    ctx.claim('C08.store', AND(cl2), sig='store-after-override',
              info=lambda: dict(v=v, u=u, u2=u2, u3=u3, got=g2))
    for k in ('ovr', 'ovr_null', 'multi', 'multiset'):
        ctx.observe(k + '2', g2[k])


def _strip(d):
    """multi_update lists -> dict for _same_tree"""
    if isinstance(d, dict):
        return {k: _strip(x) for k, x in d.items()}
    if isinstance(d, list):
        return {str(i): _strip(x) for i, x in enumerate(d)}
    if isinstance(d, str):
        return None if False else {'__str__' + d: 0}
    return d


def part_batch(ctx, cfg):
    v = ctx.int('v', -9, 9)
    u1 = ctx.int('u', -9, 9)
    u2 = ctx.int('u', -9, 9)
    seen = []

    def user(cur, new):
        seen.append(new)
        return cur * 0 + new if False else new

    class Two(Process):
        def ports_schema(self):
            return {'a': {'x': {'_default': 0, '_updater': user}},
                    'b': {'x': {'_default': 0, '_updater': user}}}

        def next_update(self, timestep, states):
            return {'a': {'x': u1}, 'b': {'x': u2}}
    e = Engine(processes={'p': Two()},
               topology={'p': {'a': ('s',), 'b': ('s',)}},
               initial_state={'s': {'x': v}}, emitter='null',
               display_info=False)
    e.update(1)
    x = e.state.get_value()['s']['x']
    ctx.claim('C08.batch', AND(len(seen) == 2,
                               len(seen) == 2 and EQ(seen[0], u1),
                               len(seen) == 2 and EQ(seen[1], u2), EQ(x, u2)),
              sig='batch', info=lambda: dict(seen=seen, final=x))


def part_arrays(ctx, cfg):
    """numpy arrays: concrete values chosen by forking (not solver-decided)."""
    import numpy as np
    vs = [np.array([1, -2, 3]), np.array([0.5, -0.5]), np.zeros(2)]
    us = [np.array([-2, 1, -5]), np.array([-1.0, 0.25]), np.array([0.0, -0.0])]
    i = ctx.choice('arr', len(vs))
    v, u = vs[i].copy(), us[i].copy()
    v0, u0 = v.copy(), u.copy()
    ok = [np.array_equal(update_accumulate(v.copy(), u), v0 + u0),
          np.array_equal(update_set(v.copy(), u), u0),
          np.array_equal(update_null(v.copy(), u), v0),
          np.array_equal(update_nonnegative_accumulate(v.copy(), u),
                         np.maximum(v0 + u0, 0)),
          np.array_equal(u, u0)]
    st = Store({'a': {'_default': v.copy()},
                'nn': {'_default': v.copy(),
                       '_updater': 'nonnegative_accumulate'}})
    st.apply_defaults()
    st.apply_update({'a': u, 'nn': u})
    g = st.get_value()
    ok += [np.array_equal(g['a'], v0 + u0),
           np.array_equal(g['nn'], np.maximum(v0 + u0, 0)),
           np.array_equal(u, u0)]
    ctx.claim('C08.functions', all(ok), sig='arrays', info=lambda: dict(
        v=v0.tolist(), u=u0.tolist(), got={k: x.tolist()
                                           for k, x in g.items()}))
    # mutable values: an array handed in as a 'set' update and accumulated
    # onto later is not modified; an integer array takes a fractional update;
    # a list leaf gives a new list and leaves the declared default alone
    first = vs[i].copy()
    first0 = first.copy()
    dflt = [1, 2]
    schema = {'a': {'_default': np.zeros(len(first))},
              'n': {'_default': np.array([1, 2])},
              'l': {'_default': dflt}}
    st = Store(schema)
    st.apply_defaults()
    frac = np.array([0.5, 0.25])
    more = [3]
    ok2 = []
    try:
        st.apply_update({'a': {'_value': first, '_updater': 'set'}})
        st.apply_update({'a': u, 'n': frac, 'l': more})
        g2 = st.get_value()
        ok2 = [np.array_equal(first, first0), np.array_equal(u, u0),
               np.array_equal(g2['a'], first0 + u0),
               np.array_equal(g2['n'], np.array([1.5, 2.25])),
               g2['l'] == [1, 2, 3], dflt == [1, 2], more == [3],
               np.array_equal(frac, np.array([0.5, 0.25]))]
        st3 = Store(schema)
        st3.apply_defaults()
        ok2.append(st3.get_value()['l'] == [1, 2])
        ok2.append(np.array_equal(st3.get_value()['n'], np.array([1, 2])))
        err = None
    except PathControl:
        raise
    except Exception as e_:
        ctx.check_poison()
        err = repr(e_)
        ok2 = [False]
    ctx.claim('C08.functions', all(ok2), sig='arrays-mutable',
              info=lambda: dict(checks=ok2, error=err, first=first.tolist(),
                                first_before=first0.tolist(), default=dflt))


def part_units(ctx, cfg):
    declared = [units.g, units.mg, units.m, units.s][ctx.choice('du', 4)]
    compat = {'gram': [units.g, units.kg, units.mg],
              'milligram': [units.g, units.kg, units.mg],
              'meter': [units.m, units.mm, units.km],
              'second': [units.s, units.ms, units.min]}[str(declared)]
    uu = compat[ctx.choice('uu', 3)]
    mag = [0, 1, 3][ctx.choice('m', 3)]
    updater = ['accumulate', 'set'][ctx.choice('upd', 2)]
    st = Store({'q': {'_default': 2 * declared, '_updater': updater,
                      '_units': declared}})
    st.apply_defaults()
    upd = mag * uu
    upd_before = (upd.magnitude, str(upd.units))
    st.apply_update({'q': upd})
    val = st.get_value()['q']
    exp = (mag * uu).to(declared) + (2 * declared if updater == 'accumulate'
                                     else 0 * declared)
    ok = hasattr(val, 'units') and val.units == declared and \
        abs(val.magnitude - exp.magnitude) <= 1e-9 * max(1, abs(exp.magnitude))
    # the update object handed in is not modified (magnitude AND unit)
    ok = ok and (upd.magnitude, str(upd.units)) == upd_before
    # one quantity object used as the update of two variables declared in
    # different units: each ends in its own declared units
    other = {'gram': units.mg, 'milligram': units.g, 'meter': units.mm,
             'second': units.ms}[str(declared)]
    st2 = Store({'a': {'_default': 1 * declared, '_updater': 'set',
                       '_units': declared},
                 'b': {'_default': 1 * other, '_updater': 'set',
                       '_units': other}})
    st2.apply_defaults()
    shared = mag * uu
    st2.apply_update({'a': shared, 'b': shared})
    v2 = st2.get_value()
    ok = ok and v2['a'].units == declared and v2['b'].units == other
    # a leaf holding a LIST of quantities (units taken from the first default
    # element): an update list given in another compatible unit is
    # concatenated and every element ends in the declared units
    st3 = Store({'ql': {'_default': [2 * declared]}})
    st3.apply_defaults()
    more = [mag * uu, 1 * uu]
    st3.apply_update({'ql': more})
    ql = st3.get_value()['ql']
    want = [2 * declared, (mag * uu).to(declared), (1 * uu).to(declared)]
    ok_list = isinstance(ql, list) and len(ql) == 3 and all(
        hasattr(a, 'units') and a.units == declared and
        abs(a.magnitude - b.magnitude) <= 1e-9 * max(1, abs(b.magnitude))
        for a, b in zip(ql, want))
    ok_list = ok_list and [str(x.units) for x in more] == [str(uu), str(uu)]
    ctx.claim('C08.units', ok_list, sig='units-list-of-quantities',
              info=lambda: dict(declared=str(declared), update=str(more),
                                got=str(ql)))
    ctx.claim('C08.units', ok, sig='units',
              info=lambda: dict(declared=str(declared), update=str(mag * uu),
                                got=str(val)))
OPTIONAL_CLAIMS = ('C08.kernel',)
