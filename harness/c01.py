"""C01 - every process update is applied exactly once, at the end of its
interval.  Shares the scenario of harness/sched.py with C02 and C03."""
from vsym.core import (AND, OR, NOT, ite, EQ, IMPLIES, evaluate, UnwindCut,
                       PathControl, SUM)
from . import sched

PROPERTY = 'C01'
CLAIMS = {
    'C01.once': 'each returned update is applied at most once, is applied by the '
                'time a call returns if its interval has ended, and exactly '
                'once after forced completion',
    'C01.on_time': 'an update is applied when the clock reads the end of the '
                   'interval it was computed for (start + requested timestep, '
                   'cut at the end time under forced completion)',
    'C01.in_order': 'updates of one process are applied in call order',
    'C01.rows': 'every emitted row: x_p(T) = sum of the deltas whose interval '
                'ended at or before T (free deltas: exactly once, not early, '
                'not late); the shared variable z likewise over all processes',
    'C01.quiet': 'a poll whose update condition is false is followed by no '
                 'next_update call',
    'C01.runs': 'the scheduler raises no exception',
}
OPTIONAL_CLAIMS = ('C01.runs',)
GOALS = {
    'quick': ['deferral across a call boundary', 'truncated interval',
              'quiet poll', 'two processes applied in one batch',
              'a process runs in a worker',
              'a process nested in a compartment',
              'initial global time not 0', 'empty update',
              'two ports on one store, update dictionary reused',
              'port wired with an empty _path', 'emit_step greater than 1',
              'list-valued variable, update echoes the view',
              'two ports reach one nested variable, update reused'],
    'thorough': ['deferral across a call boundary', 'truncated interval',
                 'quiet poll', 'two processes applied in one batch',
                 'a process runs in a worker',
                 'a process nested in a compartment',
                 'initial global time not 0', 'empty update',
              'two ports on one store, update dictionary reused',
              'port wired with an empty _path', 'emit_step greater than 1',
              'list-valued variable, update echoes the view',
              'two ports reach one nested variable, update reused'],
}
STUBS = sched_stubs = [
    'stub processes (pure): symbolic timestep per process or per poll, symbolic '
    'condition outcome per process or per poll, fresh symbolic delta per call',
    'user updater logging (process, call index, global time) for a tagged '
    'variable', 'recording user Emitter']
ASSUMPTIONS = [
    'integer time with timesteps >= 1, plus configurations with concrete '
    'dyadic float timesteps / run lengths chosen by forking (times concrete, '
    'values symbolic)',
    'claims are made for the schedules on which the clock is monotone and '
    'every pass advances it (ctx.assume of C03.monotone and C03.progress; '
    'the other schedules - the adaptive re-poll finding - are reported by '
    'C03)',
    'paths needing more than K passes per call are cut (cut_unwinding)']
BOUNDS = {
    'quick': 'const(N<=3,M=2,B=4), adaptive(N=1,M=2,B=4; N=2,M=1,B=3), '
             'cond-const(N=2,M=2,B=3), cond-fresh(N=1,M=2,B=3; N=2,M=1,B=3), '
             'wide(N=2,M=1,B=10^6,K=4), parallel(N=2,M=2,B=3: each process serial or in a worker of the transport stub, symbolic); last call forced (update()), earlier '
             'force flags symbolic; deltas in [-3,3]',
    'thorough': 'const(N=1,M=3,B=6; N=2,M=3,B=4; N=3,M=2,B=4; N=2,M=2,B=8), adaptive(N=1,M=3,B=4; N=2,M=2,B=3), cond-const(N=3,'
                'M=2,B=4), cond-fresh(N=2,M=2,B=3), wide',
}
OUTSIDE = 'float time; processes created/deleted during the run (C10); real ' \
          'multiprocessing (C13 covers the protocol under a transport stub)'


def _cfg(name, N, M, B, mode, cond, tier, **kw):
    c = dict(name=name, N=N, M=M, B=B, K=B + 2, mode=mode, cond=cond,
             forces='last', use_update=True,
             budget_s=100 if tier == 'quick' else 1500,
             crosscheck=30 if tier == 'thorough' else 0, validate=2)
    c.update(kw)
    return c


def jobs(tier):
    J = []
    if tier == 'quick':
        J.append(_cfg('const-N1', 1, 2, 4, 'const', 'none', tier))
        J.append(_cfg('const-N2', 2, 2, 4, 'const', 'none', tier))
        J.append(_cfg('const-N3', 3, 1, 3, 'const', 'none', tier))
        J.append(_cfg('const-N3-B5', 3, 1, 5, 'const', 'none', tier, IV=9,
                      K=11))
        J.append(_cfg('adaptive-N1', 1, 2, 4, 'adaptive', 'none', tier))
        J.append(_cfg('adaptive-N2', 2, 1, 3, 'adaptive', 'none', tier))
        J.append(_cfg('condconst-N2', 2, 2, 3, 'const', 'const', tier))
        J.append(_cfg('condfresh-N1', 1, 2, 3, 'const', 'fresh', tier))
        J.append(_cfg('condfresh-N2', 2, 1, 3, 'const', 'fresh', tier))
        J.append(_cfg('condcontainer-N2', 2, 1, 3, 'const', 'fresh', tier,
                      container_cond=True))
        J.append(_cfg('wide-N2', 2, 1, 10 ** 6, 'const', 'none', tier, K=4))
        for p0 in (True, False):
            for p1 in (True, False):
                if p0 or p1:
                    J.append(_cfg('parallel-N2-%d%d' % (p0, p1), 2, 2, 3,
                                  'const', 'none', tier, parallel=True,
                                  par_fixed={'0': p0, '1': p1}))
        J.append(_cfg('parallel-condfresh-N2', 2, 1, 3, 'const', 'fresh', tier,
                      parallel=True, par_fixed={'0': True}))
        J.append(_cfg('g0-N2', 2, 2, 3, 'const', 'none', tier, g0=3))
        J.append(_cfg('empties-N2', 2, 1, 3, 'const', 'none', tier,
                      empties=True))
        J.append(_cfg('twoports-N2', 2, 2, 3, 'const', 'none', tier,
                      twoports=True))
        J.append(_cfg('twoports-nested-N2', 2, 2, 3, 'const', 'none', tier,
                      twoports='nested'))
        J.append(_cfg('emptypath-N2', 2, 1, 3, 'const', 'none', tier,
                      emptypath=True))
        J.append(_cfg('lists-N2', 2, 1, 3, 'const', 'none', tier, lists=True,
                      IV=4))
        J.append(_cfg('emitstep-N2', 2, 2, 3, 'const', 'none', tier,
                      emit_step=3))
        J.append(_cfg('nested-N2', 2, 2, 3, 'const', 'none', tier, nested=True))
        J.append(_cfg('nested-condfresh-N2', 2, 1, 3, 'const', 'fresh', tier,
                      nested=True))
        # off-integer times: concrete dyadic floats chosen by forking
        J.append(_cfg('dyadic-N2', 2, 2, 3, 'const', 'none', tier,
                      ts_grid=[0.5, 1.5, 0.25], iv_grid=[0.75, 1.5, 2.0],
                      K=12))
    else:
        for N, M, B in ((1, 3, 6), (2, 3, 4), (3, 2, 4), (2, 2, 8)):
            J.append(_cfg('const-N%d-M%d-B%d' % (N, M, B), N, M, B, 'const',
                          'none', tier))
        J.append(_cfg('adaptive-N1', 1, 3, 4, 'adaptive', 'none', tier))
        J.append(_cfg('adaptive-N2', 2, 2, 3, 'adaptive', 'none', tier))
        J.append(_cfg('condconst-N3', 3, 2, 4, 'const', 'const', tier))
        J.append(_cfg('condfresh-N2', 2, 2, 3, 'const', 'fresh', tier))
        J.append(_cfg('condfresh-adaptive-N2', 2, 1, 3, 'adaptive', 'fresh',
                      tier))
        J.append(_cfg('condcontainer-N2', 2, 2, 3, 'const', 'fresh', tier,
                      container_cond=True))
        J.append(_cfg('wide-N2', 2, 2, 10 ** 6, 'const', 'none', tier, K=6))
        J.append(_cfg('wide-adaptive-N2', 2, 1, 10 ** 6, 'adaptive', 'none',
                      tier, K=5))
        J.append(_cfg('parallel-N2', 2, 2, 4, 'const', 'none', tier,
                      parallel=True))
        J.append(_cfg('parallel-condfresh-N2', 2, 1, 3, 'const', 'fresh', tier,
                      parallel=True))
        J.append(_cfg('nested-N3', 3, 2, 3, 'const', 'none', tier, nested=True))
        J.append(_cfg('emptypath-N2', 2, 2, 3, 'const', 'none', tier,
                      emptypath=True))
        J.append(_cfg('lists-N2', 2, 2, 3, 'const', 'none', tier, lists=True,
                      IV=4))
        J.append(_cfg('emitstep-N2', 2, 3, 3, 'const', 'none', tier,
                      emit_step=4))
        J.append(_cfg('g0-N2', 2, 2, 4, 'const', 'none', tier, g0=5))
        J.append(_cfg('empties-N2', 2, 2, 3, 'const', 'none', tier,
                      empties=True))
        J.append(_cfg('twoports-N2', 2, 3, 3, 'const', 'none', tier,
                      twoports=True))
        J.append(_cfg('twoports-nested-N2', 2, 3, 3, 'const', 'none', tier,
                      twoports='nested'))

        J.append(_cfg('g0-condfresh-N2', 2, 2, 3, 'const', 'fresh', tier, g0=3))
        J.append(_cfg('dyadic-N2', 2, 3, 3, 'const', 'none', tier,
                      ts_grid=[0.5, 1.5, 0.25, 1.0],
                      iv_grid=[0.75, 1.5, 2.0, 0.5], K=14))
        J.append(_cfg('dyadic-condfresh-N2', 2, 2, 3, 'const', 'fresh', tier,
                      ts_grid=[0.5, 1.5, 1.0], iv_grid=[0.75, 1.5, 2.0], K=12))
    return J


def scenario(ctx, cfg, owner):
    """Run the shared scenario.  Returns (run, crashed exception or None)."""
    run = sched.build(ctx, cfg)
    pending = []

    def after_call(j):
        G = run.engine.global_time
        applied = {t for t, _, _ in run.applied}
        for n, p in run.procs.items():
            for c in p.ncalls:
                if (n, c['k']) not in applied and not c.get('empty'):
                    pending.append(NOT(sched.expected_end(c) <= G))
                    ctx.goal('update pending at return')
    run.pending_claims = pending
    crashed = None
    try:
        sched.drive(ctx, cfg, run, on_call=after_call)
    except PathControl:
        raise
    except Exception as err:
        ctx.check_poison()
        crashed = err
    return run, crashed


def goals(ctx, run):
    for p in run.procs.values():
        if any(q['cond'] is False for q in p.polls):
            ctx.goal('quiet poll')
        for q in p.polls:
            if q['call'] is None and q['cond'] is None:
                ctx.goal('deferral across a call boundary')
        for c in p.ncalls:
            tr = c['start'] + c['asked'] > c['end']
            if c['force'] and 'truncated interval' not in ctx.goals and (
                    tr is True or (ctx.symbolic and tr is not False and
                                   ctx.solver.check_assuming(tr.s) == 'sat')):
                ctx.goal('truncated interval')
    counters = {}
    for (n, k), g, _ in run.applied:
        pass
    # two different processes applied in the same batch <=> tag updater calls
    # with no next_update call in between; approximated by equal apply times
    if ctx.symbolic and 'two processes applied in one batch' not in ctx.goals:
        ap = run.applied
        for i in range(len(ap) - 1):
            if ap[i][0][0] != ap[i + 1][0][0]:
                c = EQ(ap[i][1], ap[i + 1][1])
                if c is True or (c is not False and
                                 ctx.solver.check_assuming(c.s) == 'sat'):
                    ctx.goal('two processes applied in one batch')
                    break


def body(ctx, cfg):
    run, crashed = scenario(ctx, cfg, 'C01')
    if crashed is not None:
        if isinstance(crashed, AssertionError):
            ctx.cut_foreign(crashed)       # _check_complete: C02
        ctx.claim('C01.runs', False, sig=type(crashed).__name__,
                  info=lambda: repr(crashed))
        return
    # claims are about schedules on which the clock is monotone (C03)
    ctx.assume(AND(sched.monotone_expr(run), sched.progress_expr(run)))
    describe = lambda: sched.describe(run, getattr(ctx, 'm', {}))
    # ---- once
    counts = {}
    for tag, g, _ in run.applied:
        counts[tag] = counts.get(tag, 0) + 1
    once = [c <= 1 for c in counts.values()]
    for n, p in run.procs.items():
        for c in p.ncalls:
            once.append(counts.get((n, c['k']), 0) ==
                        (0 if c.get('empty') else 1))
    once += run.pending_claims
    ctx.claim('C01.once', AND(once), sig='once', info=describe)
    # ---- on_time, in_order
    on_time = []
    in_order = []
    last = {}
    for (n, k), g, _ in run.applied:
        c = run.procs[n].ncalls[k]
        on_time.append(EQ(g, sched.expected_end(c)))
        # ... which is also the end of the interval the update was computed
        # for: start + the timestep handed to next_update
        on_time.append(EQ(g, c['start'] + c['ts']))
        if n in last:
            in_order.append(k > last[n][0])
            in_order.append(g >= last[n][1])
        last[n] = (k, g)
    ctx.claim('C01.on_time', AND(on_time), sig='on_time', info=describe)
    ctx.claim('C01.in_order', AND(in_order), sig='in_order', info=describe)
    # ---- rows
    rows = []
    for row in run.sink['rows']:
        T = row['time']
        ztot = 0
        for n, p in run.procs.items():
            exp = 0
            for c in p.ncalls:
                exp = exp + ite(sched.expected_end(c) <= T, c['d'], 0)
                # what this call adds to the shared z (d, unless the
                # configuration says otherwise)
                ztot = ztot + ite(sched.expected_end(c) <= T,
                                  c.get('dz', c['d']), 0)
            rows.append(EQ(run.xrow(row, n), exp))
        rows.append(EQ(run.zrow(row), ztot))
        ctx.observe('row_t', T)
        ctx.observe('z', run.zrow(row))
    ctx.claim('C01.rows', AND(rows), sig='rows', info=describe)
    if cfg.get('lists'):
        # every update is applied as it was returned: the final list is as
        # long as the lists returned (at the moment they were returned), and
        # holds their elements
        final = run.engine.state.get_value()['s']['vec']
        calls = [c for p in run.procs.values() for c in p.ncalls]
        ctx.claim('C01.rows', AND(
            len(final) == 1 + sum(c['vec_len'] for c in calls),
            EQ(sum(final, 0), 1 + sum((c['vec_sum'] for c in calls), 0))),
            sig='list-accumulate', info=lambda: dict(
                final=final, returned=[(c['vec_len'], c['vec_sum'])
                                       for c in calls], **describe()))
    # ---- quiet
    quiet = [q['call'] is None for p in run.procs.values() for q in p.polls
             if q['cond'] is False]
    # ... and a process that has a condition is only invoked after its own
    # update_condition was consulted in that poll and said yes
    quiet += [c['poll'] is not None and c['poll']['cond'] is True
              for p in run.procs.values() if p.cond != 'none'
              for c in p.ncalls]
    ctx.claim('C01.quiet', AND(quiet), sig='quiet', info=describe)
    goals(ctx, run)
