"""Shared structural-history scenario (C10, C07, C13): compartments that hold
pure processes, flow steps and legacy derivers; an actor process issues a
history of structural updates at symbolic times."""
import copy

from vivarium.core.engine import Engine
from vivarium.core.process import Process, Step

from vsym.resolve import store_nodes

LOG = []
CTX = {}

SUB = {'s': {'x': {'_default': 0, '_emit': True},
             'y': {'_default': 0, '_emit': True, '_updater': 'set'},
             'm': {'_default': 4, '_divider': 'split', '_emit': True}}}

KINDS = ['add', 'delete', 'generate', 'divide', 'divide_copy', 'move_out',
         'move_in', 'generate_same', 'add_touch', 'generate_over',
         'generate_into', 'regen_same_instant']


def is_live(obj):
    e = CTX.get('engine')
    if e is None:
        return True
    return id(obj) in live_objects(e.state)


def key_of(obj):
    """(path, id) of a process object in the current hierarchy; the path makes
    a moved step count as deleted under its old path and created under the
    new one."""
    e = CTX.get('engine') or CTX.get('constructing')
    if e is None or not hasattr(e, 'state'):
        return (None, id(obj))
    ent = live_objects(e.state).get(id(obj))
    return (ent[0] if ent else None, id(obj))


def now():
    e = CTX.get('engine')
    return e.global_time if e is not None else 0


class Grow(Process):
    """pure: adds d to s.x every ts"""

    def ports_schema(self):
        sub = copy.deepcopy(SUB)
        if self.parameters.get('wide'):
            # declares one variable more than the process it replaces
            sub['s']['w'] = {'_default': 6}
        return sub

    def calculate_timestep(self, states):
        return self.parameters['ts']

    def next_update(self, timestep, states):
        LOG.append(('proc', id(self), now(), timestep, is_live(self)))
        hook = CTX.get('agent_states_hook')
        if hook is not None:
            hook(self, states)
        return {'s': {'x': self.parameters['d']}}


class Der(Step):
    """y := x + k"""

    def ports_schema(self):
        return {'s': {'x': {'_default': 0},
                      'y': {'_default': 0, '_updater': 'set'}}}

    def next_update(self, timestep, states):
        LOG.append(('step', key_of(self), now(), CTX.get('phase', -1),
                    is_live(self)))
        return {'s': {'y': states['s']['x'] + self.parameters['k']}}


class Der2(Step):
    """second flow step, depends on der; m := m (null update), logs only"""

    def ports_schema(self):
        return {'s': {'y': {'_default': 0}}}

    def next_update(self, timestep, states):
        LOG.append(('step', key_of(self), now(), CTX.get('phase', -1),
                    is_live(self)))
        return {}


CREATED = set()      # ids of the process objects made by the harness


def agent(ts, d, flavor):
    a = _agent(ts, d, flavor)
    for group in (a['processes'], a['steps']):
        for obj in group.values():
            CREATED.add(id(obj))
    CTX.setdefault('agents', []).append(a)     # keep them alive (stable ids)
    return a


def _agent(ts, d, flavor):
    if flavor == 'flowonly':
        # a compartment that holds steps only, no process
        return dict(processes={},
                    steps={'der': Der({'k': 1}), 'der2': Der2({})},
                    flow={'der': [], 'der2': [('der',)]},
                    topology={'der': {'s': ('s',)}, 'der2': {'s': ('s',)}})
    procs = {'grow': Grow({'ts': ts, 'd': d})}
    topo = {'grow': {'s': ('s',)}, 'der': {'s': ('s',)}}
    if flavor == 'flow':
        topo['der2'] = {'s': ('s',)}
        return dict(processes=procs,
                    steps={'der': Der({'k': 1}), 'der2': Der2({})},
                    flow={'der': [], 'der2': [('der',)]}, topology=topo)
    if flavor == 'legacy':
        procs['der'] = Der({'k': 1})
        return dict(processes=procs, steps={}, flow={}, topology=topo)
    del topo['der']
    return dict(processes=procs, steps={}, flow={}, topology=topo)


class Actor(Process):
    def __init__(self, parameters):
        super().__init__(parameters)
        self.i = 0

    def ports_schema(self):
        return {'loc1': {'*': copy.deepcopy(SUB)},
                'loc2': {'*': copy.deepcopy(SUB)}}

    def calculate_timestep(self, states):
        return self.parameters['ts']

    def next_update(self, timestep, states):
        ops = self.parameters['ops']
        if self.i >= len(ops):
            return {}
        op = ops[self.i](states)
        self.i += 1
        LOG.append(('issue', CTX['issued'][-1] if op else None, now(),
                    timestep))
        return op


class Twin(Process):
    """A second issuer on the actor's timestep, listed right after it: when
    the actor deletes a compartment it generates a new one under the same key
    in the same batch (two updates of one instant)."""

    def ports_schema(self):
        return {'loc1': {'*': copy.deepcopy(SUB)}}

    def calculate_timestep(self, states):
        return self.parameters['ts']

    def next_update(self, timestep, states):
        job = CTX.pop('twin_generate', None)
        if job is None:
            return {}
        key, a = job
        CTX['issued'].append(('generate', key, a))
        CTX['has_proc'].add(key)
        LOG.append(('issue', CTX['issued'][-1], now(), timestep))
        return {'loc1': {'_generate': [dict(
            key=key, processes=a['processes'], steps=a['steps'],
            flow=a['flow'], topology=a['topology'], initial_state={})]}}


class StepActor(Step):
    """The same actor as a step: issues one operation per step phase (from
    the first phase after construction on)."""

    def __init__(self, parameters):
        super().__init__(parameters)
        self.i = 0

    def ports_schema(self):
        return {'loc1': {'*': copy.deepcopy(SUB)},
                'loc2': {'*': copy.deepcopy(SUB)}}

    def next_update(self, timestep, states):
        ops = self.parameters['ops']
        LOG.append(('step', key_of(self), now(), CTX.get('phase', -1),
                    is_live(self)))
        if CTX.get('engine') is None or self.i >= len(ops):
            return {}
        op = ops[self.i](states)
        self.i += 1
        LOG.append(('issue', CTX['issued'][-1] if op else None, now(),
                    timestep))
        return op


class LoggedEngine(Engine):
    """The real Engine; run_steps is only bracketed to mark phases."""

    def run_steps(self):
        CTX['phase'] = CTX.get('phase', -1) + 1
        CTX['constructing'] = self
        live = live_objects(self.state) if hasattr(self, 'state') else {}
        LOG.append(('phase_begin', CTX['phase'],
                    {(p, i) for i, (p, o) in live.items() if o.is_step()}))
        try:
            super().run_steps()
        finally:
            live = live_objects(self.state) if hasattr(self, 'state') else {}
            LOG.append(('phase_end', CTX['phase'],
                        {(p, i) for i, (p, o) in live.items() if o.is_step()}))


def live_objects(store):
    """{id(process object): (path, object)} by own traversal."""
    out = {}
    for p, n in store_nodes(store).items():
        if not n.inner and isinstance(n.value, Process):
            out[id(n.value)] = (p, n.value)
    return out


def _note_moved(prefix):
    e = CTX.get('engine')
    if e is None:
        return
    for i, (p, o) in live_objects(e.state).items():
        if p[:len(prefix)] == prefix:
            CTX.setdefault('moved_ids', set()).add(i)


def raising_process(err):
    """The Process instance whose command was refused (from the traceback)."""
    tb = err.__traceback__
    found = None
    while tb is not None:
        f = tb.tb_frame
        if f.f_code.co_name in ('pre_send_command', 'send_command'):
            obj = f.f_locals.get('self')
            if isinstance(obj, Process):
                found = obj
        tb = tb.tb_next
    return found


def make_ops(ctx, kinds, ts_g, d, flavor, fresh_values=None):
    """Operation builders; each is called with the states the actor sees."""
    fid = [0]
    CTX['has_proc'] = {'a1'}
    CTX['issued'] = []

    def mk(kind):
        label = KINDS[kind]

        def f(st):
            l1 = sorted(st['loc1'].keys())
            l2 = sorted(st['loc2'].keys())
            fid[0] += 1
            if label == 'add':
                CTX['issued'].append(('add', 'n%d' % fid[0]))
                return {'loc1': {'_add': [{'key': 'n%d' % fid[0],
                                           'state': {'s': {'x': 7}}}]}}
            if label == 'add_touch':
                # one update with two keys: a structural change under the first
                # port and an ordinary variable update under the second
                CTX['issued'].append(('add', 'n%d' % fid[0]))
                upd = {'loc1': {'_add': [{'key': 'n%d' % fid[0],
                                          'state': {'s': {'x': 7}}}]}}
                if l2:
                    upd['loc2'] = {l2[0]: {'s': {'x': 1}}}
                return upd
            if label == 'regen_same_instant':
                c = [k for k in l1 if k in CTX['has_proc']]
                if not c or 'twin' not in CTX:
                    return {}
                CTX['issued'].append(('delete', c[0]))
                CTX['has_proc'].discard(c[0])
                CTX['twin_generate'] = (c[0], agent(ts_g, d, flavor))
                return {'loc1': {'_delete': [c[0]]}}
            if label == 'delete':
                if not l1:
                    return {}
                CTX['issued'].append(('delete', l1[0]))
                CTX['has_proc'].discard(l1[0])
                return {'loc1': {'_delete': [l1[0]]}}
            if label == 'generate_into':
                # a _generate without key that adds one more process to a
                # compartment that exists (nested under the addressed store)
                c = [k for k in l1 if k in CTX['has_proc']]
                if not c:
                    return {}
                extra = Grow({'ts': ts_g, 'd': d})
                CREATED.add(id(extra))
                CTX.setdefault('agents', []).append(extra)
                name = 'extra%d' % fid[0]
                CTX['issued'].append(('generate_into', c[0], name))
                return {'loc1': {'_generate': [dict(
                    processes={c[0]: {name: extra}},
                    topology={c[0]: {name: {'s': ('s',)}}},
                    initial_state={})]}}
            if label in ('generate', 'generate_same', 'generate_over'):
                a = agent(ts_g, d, flavor)
                key = 'g%d' % fid[0]
                if label == 'generate_same' and 'a1' not in l1:
                    key = 'a1'       # the path of a compartment deleted before
                if label == 'generate_over':
                    # over a compartment that exists (its processes and steps
                    # are replaced in place, no deletion first)
                    c = [k for k in l1 if k in CTX['has_proc']]
                    if not c:
                        return {}
                    key = c[0]
                    a['processes']['grow'].parameters['wide'] = True
                    CTX.setdefault('replaced_ids', set()).update(
                        i for i, (p, o) in live_objects(
                            CTX['engine'].state).items()
                        if p[:2] == ('loc1', key))
                CTX['issued'].append(('generate', key, a))
                CTX['has_proc'].add(key)
                return {'loc1': {'_generate': [dict(
                    key=key, processes=a['processes'], steps=a['steps'],
                    flow=a['flow'], topology=a['topology'],
                    initial_state={})]}}
            if label in ('divide', 'divide_copy'):
                c = [k for k in l1 if k in CTX['has_proc']]
                if not c:
                    return {}
                m = c[0]
                if m + '0' in l1 or m + '1' in l1:
                    # the daughters' keys are taken (the mother's key was
                    # re-created after an earlier division): not a
                    # well-formed division, nothing issued
                    return {}
                CTX['has_proc'].discard(m)
                CTX['has_proc'].update({m + '0', m + '1'})
                if label == 'divide':
                    ds = []
                    ags = []
                    for sfx in '01':
                        a = agent(ts_g, d, flavor)
                        ags.append(a)
                        ds.append(dict(key=m + sfx, processes=a['processes'],
                                       steps=a['steps'], flow=a['flow'],
                                       topology=a['topology'],
                                       initial_state={}))
                    CTX['issued'].append(('divide', m, ags))
                else:
                    ds = [{'key': m + '0'}, {'key': m + '1'}]
                    CTX['issued'].append(('divide_copy', m))
                return {'loc1': {'_divide': {'mother': m, 'daughters': ds}}}
            if label == 'move_out':
                if not l1:
                    return {}
                CTX['issued'].append(('move_out', l1[0]))
                _note_moved(('loc1', l1[0]))
                if l1[0] in CTX['has_proc']:
                    CTX['has_proc'].discard(l1[0])
                    CTX.setdefault('has_proc2', set()).add(l1[0])
                return {'loc1': {'_move': [{'source': (l1[0],),
                                            'target': ('loc2',)}]}}
            if label == 'move_in':
                if not l2:
                    return {}
                CTX['issued'].append(('move_in', l2[0]))
                _note_moved(('loc2', l2[0]))
                if l2[0] in CTX.get('has_proc2', ()):
                    CTX['has_proc2'].discard(l2[0])
                    CTX['has_proc'].add(l2[0])
                return {'loc2': {'_move': [{'source': (l2[0],),
                                            'target': ('loc1',)}]}}
            raise AssertionError(label)
        return f
    return [mk(k) for k in kinds]


def build(ctx, kinds, flavor, ts_a, ts_g, d, emitter='null', parallel=None,
          engine_cls=LoggedEngine, extra_processes=None, extra_topology=None,
          initial_state=None, actor_last=False, issuer='process',
          extra_steps=None, extra_flow=None, first_flavor=None,
          via_composite=False, extra_first=False, actor_below=False):
    LOG.clear()
    CTX.clear()
    CREATED.clear()
    a = agent(ts_g, d, first_flavor or flavor)
    if parallel:
        parallel(a)
    ops = make_ops(ctx, kinds, ts_g, d, flavor)
    if issuer != 'process':
        return _build_step_issuer(a, ops, issuer, emitter, engine_cls,
                                  initial_state, extra_processes,
                                  extra_topology, extra_steps, extra_flow)
    actor = Actor({'ts': ts_a, 'ops': ops})
    twin = None
    if KINDS.index('regen_same_instant') in kinds:
        twin = Twin({'ts': ts_a})
        CTX['twin'] = twin
    if actor_last:
        # listed after the agents: in a batch the agents' updates are applied
        # before the actor's structural update
        processes = {'loc1': {'a1': a['processes']}, 'actor': actor}
    else:
        processes = {'actor': actor, 'loc1': {'a1': a['processes']}}
    steps = {'loc1': {'a1': a['steps']}} if a['steps'] else {}
    flow = {'loc1': {'a1': a['flow']}} if a['flow'] else {}
    topology = {'actor': {'loc1': ('loc1',), 'loc2': ('loc2',)},
                'loc1': {'a1': a['topology']}}
    if twin is not None:
        # directly after the actor
        items = []
        for k, v in processes.items():
            items.append((k, v))
            if k == 'actor':
                items.append(('twin', twin))
        processes = dict(items)
        topology['twin'] = {'loc1': ('loc1',)}
    if actor_below:
        # the actor sits in a compartment of its own; its ports reach the
        # stores it restructures through '..'
        processes = {k: v for k, v in processes.items() if k != 'actor'}
        processes['h2'] = {'actor': actor}
        del topology['actor']
        topology['h2'] = {'actor': {'loc1': ('..', 'loc1'),
                                    'loc2': ('..', 'loc2')}}
    if extra_processes:
        if extra_first:
            # the extra processes are declared before the actor and agents
            processes = dict(extra_processes, **processes)
            topology = dict(extra_topology, **topology)
        else:
            processes.update(extra_processes)
            topology.update(extra_topology)
    init = {'loc2': {'b1': {'s': {'x': 5}}}}
    if initial_state:
        init.update(initial_state)
    if via_composite:
        # the engine is built from a Composite object, which it keeps in sync
        from vivarium.core.composer import Composite
        comp = Composite({'processes': processes, 'steps': steps,
                          'flow': flow, 'topology': topology, 'state': init})
        CTX['composite'] = comp
        e = engine_cls(composite=comp, display_info=False, emitter=emitter)
    else:
        e = engine_cls(processes=processes, steps=steps, flow=flow,
                       topology=topology, initial_state=init,
                       display_info=False, emitter=emitter)
    CTX['engine'] = e
    CTX['actor'] = actor
    CTX['first_agent'] = a
    return e


def _build_step_issuer(a, ops, issuer, emitter, engine_cls, initial_state,
                       extra_processes=None, extra_topology=None,
                       extra_steps=None, extra_flow=None, first_flavor=None,
          via_composite=False, extra_first=False, actor_below=False):
    """The structural updates are issued by a step during a step phase: a
    legacy deriver (listed under processes, runs before all flow steps) or a
    flow step without dependencies (first layer)."""
    actor = StepActor({'ops': ops})
    processes = {'loc1': {'a1': a['processes']}}
    steps = {'loc1': {'a1': a['steps']}} if a['steps'] else {}
    flow = {'loc1': {'a1': a['flow']}} if a['flow'] else {}
    topology = {'actor': {'loc1': ('loc1',), 'loc2': ('loc2',)},
                'loc1': {'a1': a['topology']}}
    if issuer == 'deriver':
        processes = {'actor': actor, 'loc1': {'a1': a['processes']}}
    else:
        steps = dict(steps, actor=actor)
        flow = dict(flow, actor=[])
    if extra_processes:
        processes.update(extra_processes)
    if extra_topology:
        topology.update(extra_topology)
    if extra_steps:
        steps = dict(steps, **extra_steps)
        flow = dict(flow, **extra_flow)
    init = {'loc2': {'b1': {'s': {'x': 5}}}}
    if initial_state:
        init.update(initial_state)
    e = engine_cls(processes=processes, steps=steps, flow=flow,
                   topology=topology, initial_state=init, display_info=False,
                   emitter=emitter)
    CTX['engine'] = e
    CTX['actor'] = actor
    CTX['first_agent'] = a
    return e
