"""C06 - a port reads and writes the same store node, for every topology."""
import copy
from vivarium.core.engine import Engine
from vivarium.core.process import Process

from vsym.core import AND, OR, NOT, EQ, PathControl
from vsym.resolve import resolve, get, put, store_nodes, nest
from vsym import stubs

PROPERTY = 'C06'
CLAIMS = {
    'C06.read': 'the value a process reads for a port variable is the value of '
                'the node the independent lexical resolver names',
    'C06.write': 'after one update() every resolved node holds its initial value '
                 'plus the sum of all updates of port variables resolving to it '
                 '(colliding updates all applied)',
    'C06.frame': 'every other node keeps its identity and its value',
    'C06.glob': 'a glob port lists exactly the children of the resolved node, '
                'restricted to the declared sub-variables',
}
OPTIONAL_CLAIMS = ('C06.glob',)
GOALS = {'quick': ['two port variables on one node', 'dotdot in a path',
                   '_path dictionary port', 'glob port', 'scalar port',
                   'nested schema port', 'glob below a glob',
                   'inner glob child declared by a process',
                   '_path dictionary with the empty path',
                   'scalar port on a top-level variable',
                   'port split by a plain dictionary',
                   'glob port wired by a dictionary under *',
                   'scalar port under set'],
         'thorough': ['two port variables on one node', 'dotdot in a path',
                      '_path dictionary port', 'glob port', 'scalar port',
                      'nested schema port', 'glob below a glob',
                      'inner glob child declared by a process',
                      '_path dictionary with the empty path',
                      'scalar port on a top-level variable',
                      'port split by a plain dictionary',
                      'glob port wired by a dictionary under *',
                      'scalar port under set']}
STUBS = ['one process whose ports schema / topology are produced by a generator '
         'driven by solver-decided choices; it records the states of its first '
         'invocation and returns symbolic updates for every port variable',
         'glob-below-glob job: three such processes (environment globbing the '
         'compartments, a process in a compartment globbing a store of that '
         'compartment, a process below that store declaring a child); '
         'presence, declaration order, child origin and values symbolic']
ASSUMPTIONS = [
    'well-formed topologies only: no node is at once a leaf target and a '
    'branch of another target (such combinations are skipped and counted)',
    'accumulate updater (default) so that colliding updates commute']
BOUNDS = {'quick': 'first port: each of 7 kinds {dict, scalar (also on a top-level variable), _path dictionary (also with the empty path) with a renamed variable, glob, schema nested two levels, plain split dictionary, glob wired by a dictionary under *}; second port one of the first six kinds; a third port (dict or scalar) for the dict / _path dictionary / glob jobs at depth 0; 7 wirings over '
                   '{A,B,inner,up,..}, process at depth 0 or 2, values in [-9,9], the update returned at two invocations; plus the glob-below-glob and scalar-set jobs',
          'thorough': '3 ports of any kind, same wirings, process depth 0..2'}
OUTSIDE = "'**' ports, _reduce, ill-formed topologies (undeclared ports are " \
          "rejected by the code)"

PLAIN = [('A',), ('B',), ('A', 'inner'), ('..', 'A'), ('..', 'up', 'B'),
         ('A', '..', 'B'), ('B', 'inner', '..')]
KINDS = ['dict', 'scalar', 'pathdict', 'glob', 'nested', 'split', 'globdict']


class P(Process):
    def __init__(self, schema):
        super().__init__({})
        self._s = schema
        self.seen = None
        self.upd = {}

    def ports_schema(self):
        return self._s

    def next_update(self, timestep, states):
        # the same update is returned at the first two invocations
        self.calls = getattr(self, 'calls', 0) + 1
        if self.seen is None:
            self.seen = states
        if self.calls <= 2:
            return copy.deepcopy(self.upd)
        return {}


def jobs(tier):
    q = tier == 'quick'
    out = []
    for depth in ((0, 2) if q else (0, 1, 2)):
        for k0 in range(len(KINDS)):
            if KINDS[k0] == 'pathdict' and depth == 0:
                # the largest job, split by the empty-_path flag
                for ep in (False, True):
                    out.append(dict(
                        name='d0-pathdict-%s' % ('emptypath' if ep
                                                 else 'path'),
                        depth=0, k0=k0, nports=3, emptypath=ep,
                        other_kinds=6 if q else len(KINDS),
                        third_kinds=2 if q else len(KINDS),
                        budget_s=100 if q else 1500,
                        crosscheck=0 if q else 20))
                continue
            out.append(dict(name='d%d-%s' % (depth, KINDS[k0]), depth=depth,
                            k0=k0, nports=3 if (not q or (
                                depth == 0 and KINDS[k0] in (
                                    'dict', 'pathdict', 'glob'))) else 2,
                            # quick: the later ports take one of the first
                            # six kinds (every kind is the first port of
                            # some job)
                            other_kinds=6 if q else len(KINDS),
                            # ... and the third port is a dict or scalar port
                            third_kinds=2 if q else len(KINDS),
                            budget_s=100 if q else 1500,
                            crosscheck=0 if q else 20))
    out.append(dict(name='scalar-set', part='scalar_set', budget_s=60))
    out.append(dict(name='glob-below-glob', part='globglob',
                    budget_s=100 if q else 600))
    return out


def globglob(ctx, cfg):
    """Several processes: a glob port over a store that lies below another
    globbed store; the inner children are declared by a third process or come
    from the initial state; declaration order decided by the solver."""
    with_env = ctx.flag('env')
    from_proc = ctx.flag('childproc')
    from_init = ctx.flag('childinit')
    named = ctx.flag('named')       # glob nested in a named port / '*' port key
    order = ctx.choice('order', 3)
    env = P({'agents': {'*': {'mass': {'_default': 1}}}})
    if named:
        nucleus = P({'shells': {'*': {'charge': {'_default': 2}}}})
        ntopo = {'shells': ('shells',)}
    else:
        nucleus = P({'*': {'charge': {'_default': 2}}})
        ntopo = {'*': ('shells',)}
    electron = P({'spin': {'value': {'_default': 3}}})
    a1 = [('nucleus', nucleus)]
    a1_t = {'nucleus': ntopo}
    if from_proc:
        a1.append(('shells', {'s1': {'electron': electron}}))
        a1_t['shells'] = {'s1': {'electron': {'spin': ('spin',)}}}
        ctx.goal('inner glob child declared by a process')
    if order == 1:
        a1.reverse()
    top = [('agents', {'a1': dict(a1)})]
    topology = {'agents': {'a1': a1_t}}
    if with_env:
        top.append(('env', env))
        topology['env'] = {'agents': ('agents',)}
        ctx.goal('glob below a glob')
    if order == 2:
        top.reverse()
    init = {}
    iv = {}
    children = []
    if from_proc:
        children.append('s1')
    if from_init:
        children.append('s2')
        iv[('agents', 'a1', 'shells', 's2', 'charge')] = ctx.int('v', -9, 9)
        put(init, ('agents', 'a1', 'shells', 's2', 'charge'),
            iv[('agents', 'a1', 'shells', 's2', 'charge')])
    if from_proc and ctx.flag('s1init'):
        iv[('agents', 'a1', 'shells', 's1', 'charge')] = ctx.int('v', -9, 9)
        put(init, ('agents', 'a1', 'shells', 's1', 'charge'),
            iv[('agents', 'a1', 'shells', 's1', 'charge')])
    if with_env and ctx.flag('massinit'):
        iv[('agents', 'a1', 'mass')] = ctx.int('v', -9, 9)
        put(init, ('agents', 'a1', 'mass'), iv[('agents', 'a1', 'mass')])
    ups = {}
    key = 'shells' if named else None
    for c in children:
        ups[c] = ctx.int('u', -9, 9)
    nupd = {c: {'charge': ups[c]} for c in children}
    nucleus.upd = {'shells': nupd} if named else nupd
    um = ctx.int('u', -9, 9)
    env.upd = {'agents': {'a1': {'mass': um}}}
    info = lambda: dict(with_env=with_env, from_proc=from_proc,
                        from_init=from_init, named=named, order=order,
                        initial=init)
    e = Engine(processes=dict(top), topology=topology, initial_state=init,
               display_info=False, emitter='null')
    e.update(1)
    final = e.state.get_value()
    st = nucleus.seen['shells'] if named else nucleus.seen
    ctx.claim('C06.glob', sorted(st.keys()) == sorted(children) and all(
        sorted(st[c].keys()) == ['charge'] for c in st), sig='glob-below-glob',
        info=info)
    read, write = [], []
    for c in children:
        n = ('agents', 'a1', 'shells', c, 'charge')
        start = iv.get(n, 2)
        if c in st and 'charge' in st[c]:
            read.append(EQ(st[c]['charge'], start))
        else:
            read.append(False)
        write.append(EQ(get(final, n, None), start + ups[c]))
        ctx.observe(c, get(final, n, None))
    if with_env:
        n = ('agents', 'a1', 'mass')
        start = iv.get(n, 1)
        try:
            read.append(EQ(env.seen['agents']['a1']['mass'], start))
        except KeyError:
            read.append(False)
        write.append(EQ(get(final, n, None), start + um))
    if from_proc:
        try:
            read.append(EQ(electron.seen['spin']['value'], 3))
        except KeyError:
            read.append(False)
    ctx.claim('C06.read', AND(read), sig='read-glob-below-glob', info=info)
    ctx.claim('C06.write', AND(write), sig='write-glob-below-glob', info=info)


def scalar_set(ctx, cfg):
    """Ports that are themselves variables, under the `set` updater: the node
    ends up holding what was written, also when that is 0 / False."""
    v0 = ctx.int('v', 1, 9)
    u = ctx.int('u', -2, 2)           # includes 0
    off = ctx.flag('off')
    depth = ctx.choice('depth', 2)
    parent = [(), ('agents', 'a1')][depth]
    up = ('..',) * len(parent)
    proc = P({'level': {'_default': 5, '_updater': 'set'},
              'enabled': {'_default': True, '_updater': 'set'},
              'pool': {'count': {'_default': 5, '_updater': 'set'}}})
    proc.upd = {'level': u, 'enabled': not off, 'pool': {'count': u}}
    e = Engine(processes=nest({'proc': proc}, parent),
               topology=nest({'proc': {'level': up + ('A', 'level'),
                                       'enabled': up + ('A', 'enabled'),
                                       'pool': up + ('B',)}}, parent),
               initial_state={'A': {'level': v0}, 'B': {'count': v0}},
               display_info=False, emitter='null')
    e.update(1)
    final = e.state.get_value()
    ctx.goal('scalar port under set')
    ctx.claim('C06.write', AND(EQ(final['A']['level'], u),
                               final['A']['enabled'] is (not off),
                               EQ(final['B']['count'], u)),
              sig='write-scalar-set', info=lambda: dict(
                  written=proc.upd, final={'A': final['A'], 'B': final['B']}))
    ctx.claim('C06.read', AND(EQ(proc.seen['level'], v0),
                              proc.seen['enabled'] is True,
                              EQ(proc.seen['pool']['count'], v0)),
              sig='read-scalar-set', info=lambda: dict(seen=proc.seen))


def body(ctx, cfg):
    if cfg.get('part') == 'globglob':
        return globglob(ctx, cfg)
    if cfg.get('part') == 'scalar_set':
        return scalar_set(ctx, cfg)
    depth = cfg['depth']
    parent = [(), ('agents',), ('agents', 'a1')][depth]
    schema, topo = {}, {}
    targets = {}       # (port, var, child) -> absolute node path
    globs = {}         # port -> absolute node whose children it lists
    nested_ports = set()
    for i in range(cfg['nports']):
        port = 'p%d' % i
        kind = cfg['k0'] if i == 0 else ctx.choice(
            'kind', cfg.get('other_kinds', len(KINDS)) if i == 1
            else cfg.get('third_kinds', len(KINDS)))
        w = PLAIN[ctx.choice('w', len(PLAIN))]
        if resolve(parent, w) is None or (
                w[0] == '..' and resolve(parent, w[:2]) is None):
            w = ('A',)
        if '..' in w:
            ctx.goal('dotdot in a path')
        base = resolve(parent, w)
        if KINDS[kind] == 'dict':
            schema[port] = {'v': {'_default': 0}, 'u': {'_default': 0}}
            topo[port] = w
            for var in ('v', 'u'):
                targets[(port, var, None)] = base + (var,)
        elif KINDS[kind] == 'scalar':
            schema[port] = {'_default': 0}
            if i <= 1 and cfg['k0'] == KINDS.index('scalar') \
                    and ctx.flag('top'):
                # wired to a variable directly under the root (absolute
                # path of length 1)
                topo[port] = ('..',) * depth + ('topv',)
                targets[(port, None, None)] = ('topv',)
                ctx.goal('scalar port on a top-level variable')
            else:
                topo[port] = w + ('v',)
                targets[(port, None, None)] = base + ('v',)
            ctx.goal('scalar port')
        elif KINDS[kind] == 'pathdict':
            schema[port] = {'v': {'_default': 0}, 'u': {'_default': 0}}
            if i == 0 and (cfg['emptypath'] if 'emptypath' in cfg
                           else ctx.flag('emptypath')):
                # '_path': () - the port is the store holding the process
                w, base = (), parent
                ren = ('B', 'u')
                ctx.goal('_path dictionary with the empty path')
            else:
                ren = ('..', 'B', 'u') if len(base) >= 1 else ('u',)
            topo[port] = {'_path': w, 'v': ren}
            targets[(port, 'v', None)] = resolve(base, ren)
            targets[(port, 'u', None)] = base + ('u',)
            ctx.goal('_path dictionary port')
        elif KINDS[kind] == 'split':
            # a port split by a plain dictionary (no '_path'): every variable
            # is wired on its own
            schema[port] = {'v': {'_default': 0}, 'u': {'_default': 0}}
            other = ('B', 'u') if w != ('B',) else ('A', 'u')
            if resolve(parent, other) is None:
                other = ('A', 'u')
            topo[port] = {'v': w + ('v',), 'u': other}
            targets[(port, 'v', None)] = base + ('v',)
            targets[(port, 'u', None)] = resolve(parent, other)
            ctx.goal('port split by a plain dictionary')
        elif KINDS[kind] == 'globdict':
            # a glob port whose '*' entry is a dictionary carrying the '_path'
            # of the store whose children it lists
            schema[port] = {'*': {'v': {'_default': 0}}}
            topo[port] = {'*': {'_path': w, 'v': ('v',)}}
            globs[port] = base
            for child in ('inner', 'c2'):
                targets[(port, 'v', child)] = base + (child, 'v')
            ctx.goal('glob port wired by a dictionary under *')
        elif KINDS[kind] == 'nested':
            # schema nested two levels under the port: port -> inner -> v
            schema[port] = {'inner': {'v': {'_default': 0}},
                            'u': {'_default': 0}}
            topo[port] = w
            targets[(port, 'v', 'inner')] = base + ('inner', 'v')
            targets[(port, 'u', None)] = base + ('u',)
            nested_ports.add(port)
            ctx.goal('nested schema port')
        else:
            schema[port] = {'*': {'v': {'_default': 0}}}
            topo[port] = w
            globs[port] = base
            for child in ('inner', 'c2'):
                targets[(port, 'v', child)] = base + (child, 'v')
            ctx.goal('glob port')
    nodes = sorted(set(targets.values()))
    # skip ill-formed: a node that is both leaf and branch of another, or a
    # glob parent that would list a leaf target of another port as a child
    for a in nodes:
        for b in nodes:
            if a != b and b[:len(a)] == a:
                ctx.note('illformed', True)
                return
    for port, gb in globs.items():
        for n in nodes:
            if n[:len(gb)] == gb and len(n) == len(gb) + 1:
                ctx.note('illformed', True)
                return
            if n[:len(gb)] == gb and len(n) >= len(gb) + 2 and (
                    n[len(gb)] not in ('inner', 'c2')):
                # another port adds a child the harness did not give a 'v'
                ctx.note('illformed', True)
                return
    if len(set(targets.values())) < len(targets):
        ctx.goal('two port variables on one node')
    proc = P(schema)
    processes = nest({'proc': proc}, parent)
    topology = nest({'proc': topo}, parent)
    init, iv = {}, {}
    for n in nodes:
        iv[n] = ctx.int('v', -9, 9)
        put(init, n, iv[n])
    up = {}
    for key in targets:
        port, var, child = key
        u = ctx.int('u', -9, 9)
        up[key] = u
        if var is None:
            proc.upd[port] = u
        elif child is None:
            proc.upd.setdefault(port, {})[var] = u
        else:
            proc.upd.setdefault(port, {}).setdefault(child, {})[var] = u
    ctx.note('topology', topo)
    ctx.note('depth', depth)
    info = lambda: dict(topology=topo, parent=parent, targets={
        str(k): v for k, v in targets.items()}, initial=init, update=proc.upd)
    e = Engine(processes=processes, topology=topology, initial_state=init,
               display_info=False, emitter='null')
    before = {p: (id(n), n.value) for p, n in store_nodes(e.state).items()
              if not n.inner and not isinstance(n.value, Process)}
    topology_given = copy.deepcopy(topology)
    e.update(2)          # two invocations, the same update each time
    st = proc.seen
    final = e.state.get_value()
    # ---- read
    read = []
    for (port, var, child), n in targets.items():
        try:
            seen = st[port] if var is None else (
                st[port][var] if child is None else st[port][child][var])
        except KeyError:
            read.append(False)
            continue
        read.append(EQ(seen, iv[n]))
    ctx.claim('C06.read', AND(read), sig='read', info=info)
    # ---- glob shape
    for port, gb in globs.items():
        children = sorted(get(init, gb, {}).keys()) if isinstance(
            get(init, gb, {}), dict) else []
        ctx.claim('C06.glob', sorted(st[port].keys()) == children and all(
            sorted(st[port][c].keys()) == ['v'] for c in st[port]),
            sig='glob', info=info)
    # ---- write
    write = []
    for n in nodes:
        exp = iv[n]
        for key, t in targets.items():
            if t == n:
                exp = exp + 2 * up[key]
        write.append(EQ(get(final, n, None), exp))
        ctx.observe('node', get(final, n, None))
    kinds = '+'.join(sorted(set(
        'scalar' if isinstance(v, tuple) and k[1] is None else
        'glob' if k[2] is not None else
        'pathdict' if isinstance(topo[k[0]], dict) and '_path' in topo[k[0]]
        else 'split' if isinstance(topo[k[0]], dict) else 'dict'
        for k, v in targets.items()
        if list(targets.values()).count(v) > 1)))
    ctx.claim('C06.write', AND(write), sig='write-collision:' + kinds,
              info=info)
    # ---- frame
    after = {p: (id(n), n.value) for p, n in store_nodes(e.state).items()
             if not n.inner and not isinstance(n.value, Process)}
    frame = [set(after) == set(before)]
    for p, (i, v) in before.items():
        if p in nodes or p not in after:
            continue
        frame.append(after[p][0] == i)
        frame.append(EQ(after[p][1], v))
    for n in nodes:
        frame.append(n in after and n in before and after[n][0] == before[n][0])
    # the topology the caller handed in is not modified
    frame.append(topology == topology_given)
    ctx.claim('C06.frame', AND(frame), sig='frame', info=info)
