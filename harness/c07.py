"""C07 - a process sees exactly its declared variables, always from the current
hierarchy (also after structural updates)."""
from vivarium.core.engine import Engine
from vivarium.core.process import Process, Step

from vsym.core import AND, OR, NOT, EQ, is_sym, PathControl
from vsym.resolve import resolve, get
from . import hist
from .hist import CTX, KINDS

PROPERTY = 'C07'
CLAIMS = {
    'C07.shape': 'at calculate_timestep, update_condition and next_update the '
                 'states dictionary has exactly the shape of the ports schema '
                 'projected on the current hierarchy: declared variables only, '
                 'one entry per current child of a glob target restricted to '
                 'the declared sub-variables, output-only ports empty',
    'C07.values': 'every leaf of states equals the current value of the node it '
                  'is wired to (own resolver, own traversal)',
}
GOALS = {'quick': ['view after add', 'view after delete', 'view after divide',
                   'view after move', 'observer below the root',
                   'step observer after a step issued a structural update',
                   'fixed port on a store replaced within one batch',
                   'observer declared before a wider glob declaration'],
         'thorough': ['view after add', 'view after delete',
                      'view after divide', 'view after move',
                      'observer below the root',
                      'step observer after a step issued a structural update',
                      'fixed port on a store replaced within one batch',
                      'observer declared before a wider glob declaration']}
STUBS = ['observer process: glob port declaring only s.x of each agent, a dict '
         'port on a store that holds an extra undeclared variable, a scalar '
         'port, an output-only port; it compares its states with the harness\'s '
         'projection of the hierarchy at all three callbacks',
         'actor issuing a structural history; pure agents']
ASSUMPTIONS = ['integer time; glob sub-schema non-empty; exceptions of the '
               'in-flight move/divide kind are C10\'s (cut_foreign_exception)']
BOUNDS = {'quick': '7 operation kinds x histories of length 1 and selected '
                   'pairs, observer at the root or one level down with ".." '
                   'wiring, symbolic timesteps and values',
          'thorough': 'all histories of length 2, length 3 from generate / '
                      'divide / move'}
OUTSIDE = "'**' ports; schemas nested deeper than two levels under a glob"


class Observer(Process):
    def ports_schema(self):
        return {'agents': {'*': {'s': {'x': {'_default': 0}}}},
                'g': {'total': {'_default': 0}},
                'one': {'_default': 0},
                'out': {'_output': True, 'o': {'_default': 0}}}

    def calculate_timestep(self, states):
        self.check(states, 'calculate_timestep')
        return 1

    def update_condition(self, timestep, states):
        self.check(states, 'update_condition')
        return True

    def next_update(self, timestep, states):
        self.check(states, 'next_update')
        return {'out': {'o': 1}, 'g': {'total': CTX['dtot']}}

    def check(self, st, where):
        _check(st, where)


def _check(st, where):
    if True:
        e = CTX.get('engine')
        if e is None or CTX.get('stop_checks'):
            return
        ctx = CTX['ctx']
        full = e.state.get_value()
        home = CTX['home']
        wiring = CTX['wiring']

        def node(port):
            return get(full, resolve(home, wiring[port]), None)
        agents = node('agents') or {}
        proj = {'agents': {k: {'s': {'x': v['s']['x']}}
                           for k, v in agents.items()},
                'g': {'total': node('g')['total']},
                'one': node('one'),
                'out': {}}

        def shape(d):
            return {k: shape(v) for k, v in d.items()} \
                if isinstance(d, dict) else None
        ok = shape(st) == shape(proj)
        info = lambda: dict(where=where, states=st, projection=proj,
                            history=CTX['kinds'],
                            issued=[i[:2] for i in CTX['issued']])
        CTX['shape_ok'] = ctx.claim('C07.shape', ok, sig='shape@' + where,
                                    info=info) and CTX.get('shape_ok', True)
        if not ok:
            return
        cl = [EQ(st['g']['total'], proj['g']['total']),
              EQ(st['one'], proj['one'])]
        cl += [EQ(st['agents'][k]['s']['x'], proj['agents'][k]['s']['x'])
               for k in proj['agents']]
        ctx.claim('C07.values', AND(cl), sig='values@' + where, info=info)
        ctx.observe('total', st['g']['total'])
        for k in sorted(proj['agents']):
            ctx.observe(k, st['agents'][k]['s']['x'])
        # witnesses
        issued = [i[0] for i in CTX['issued']]
        keys = set(proj['agents'])
        for i in CTX['issued']:
            if i[0] == 'add' and i[1] in keys:
                ctx.goal('view after add')
            if i[0] == 'delete' and i[1] not in keys:
                ctx.goal('view after delete')
            if i[0] in ('divide', 'divide_copy') and i[1] + '0' in keys:
                ctx.goal('view after divide')
            if i[0] == 'move_out' and i[1] not in keys:
                ctx.goal('view after move')


class ObserverStep(Step):
    """The same observer as a flow step that depends on the step issuing the
    structural updates: it runs in a later layer of the same step phase."""

    ports_schema = Observer.ports_schema

    def next_update(self, timestep, states):
        _check(states, 'step.next_update')
        ctx = CTX.get('ctx')
        if CTX.get('engine') is not None and CTX.get('issued') and ctx:
            ctx.goal('step observer after a step issued a structural update')
        return {'out': {'o': 1}, 'g': {'total': CTX['dtot']}}


class Tot(Process):
    """declares an extra variable next to the one the observer declares"""

    def ports_schema(self):
        return {'g': {'total': {'_default': 0}, 'other': {'_default': 3}},
                'one': {'_default': 0}}

    def calculate_timestep(self, states):
        return self.parameters['ts']

    def next_update(self, timestep, states):
        return {'g': {'other': 1}, 'one': CTX['done']}


class FixedObs(Process):
    """no glob port: one fixed port wired into a compartment's store"""

    def ports_schema(self):
        return {'spot': {'x': {'_default': 0}}}

    def calculate_timestep(self, states):
        self.check(states, 'calculate_timestep')
        return 1

    def update_condition(self, timestep, states):
        self.check(states, 'update_condition')
        return True

    def next_update(self, timestep, states):
        self.check(states, 'next_update')
        return {'spot': {'x': CTX['d']}}

    def check(self, st, where):
        e = CTX.get('engine')
        if e is None:
            return
        ctx = CTX['ctx']
        cur = get(e.state.get_value(), ('loc1', 'a1', 's', 'x'), None)
        ok = isinstance(st, dict) and set(st) == {'spot'} and \
            set(st['spot']) == {'x'}
        info = lambda: dict(where=where, states=st, hierarchy=cur,
                            replaced=CTX.get('replaced'))
        ctx.claim('C07.shape', ok, sig='shape-fixed-port@' + where, info=info)
        if ok:
            ctx.claim('C07.values', EQ(st['spot']['x'], cur),
                      sig='values-replaced-store@' + where, info=info)
            ctx.observe('x', st['spot']['x'])
        if CTX.get('replaced'):
            ctx.goal('fixed port on a store replaced within one batch')


class Swap(Process):
    """role 'delete': removes a1; role 'add': adds a1 again with a new state.
    Both act at their k-th update, in the same batch (equal timesteps)."""

    def ports_schema(self):
        return {'loc1': {'*': {'s': {'x': {'_default': 0}}}}}

    def calculate_timestep(self, states):
        return CTX['ts_swap']

    def next_update(self, timestep, states):
        self.n = getattr(self, 'n', 0) + 1
        if self.n != CTX['swap_at']:
            return {}
        if self.parameters['role'] == 'delete':
            return {'loc1': {'_delete': ['a1']}}
        CTX['replaced'] = True
        return {'loc1': {'_add': [{'key': 'a1',
                                   'state': {'s': {'x': CTX['v1']}}}]}}


def part_replace(ctx, cfg):
    """A store a fixed (non-glob) port is wired to is deleted and re-created
    under the same path by two updates of one batch: from its next invocation
    on the process reads the new store."""
    CTX.clear()
    CTX.update(ctx=ctx, d=ctx.int('d', -3, 3), v1=ctx.int('v1', 10, 19),
               ts_swap=ctx.int('tss', 1, 2), swap_at=1 + ctx.choice('at', 2),
               replaced=False)
    v0 = ctx.int('v0', -9, 9)
    below = ctx.flag('below')
    obs = FixedObs()
    processes = {'del': Swap({'role': 'delete'}), 'add': Swap({'role': 'add'})}
    topology = {'del': {'loc1': ('loc1',)}, 'add': {'loc1': ('loc1',)}}
    if below:
        processes['h'] = {'obs': obs}
        topology['h'] = {'obs': {'spot': ('..', 'loc1', 'a1', 's')}}
    else:
        processes['obs'] = obs
        topology['obs'] = {'spot': ('loc1', 'a1', 's')}
    e = Engine(processes=processes, topology=topology,
               initial_state={'loc1': {'a1': {'s': {'x': v0}},
                                       'a2': {'s': {'x': 1}}}},
               display_info=False, emitter='null')
    CTX['engine'] = e
    e.update(ctx.int('T', 2, 5))


def jobs(tier):
    q = tier == 'quick'
    out = [dict(name='replace', part='replace', budget_s=100 if q else 600)]
    for flavor in ('none', 'flow'):
        for k in range(len(KINDS)):
            out.append(dict(name='%s-%s' % (flavor, KINDS[k]), flavor=flavor,
                            ops=[k], budget_s=100 if q else 900))
        if q:
            for a, b in [(2, 3), (3, 5), (0, 1), (5, 6)]:
                out.append(dict(name='%s-%s-%s' % (flavor, KINDS[a], KINDS[b]),
                                flavor=flavor, ops=[a, b], budget_s=100))
        else:
            for a in range(len(KINDS)):
                out.append(dict(name='%s-%s-any' % (flavor, KINDS[a]),
                                flavor=flavor, ops=[a, None], budget_s=1200,
                                crosscheck=10))
    # the structural update comes from a flow step; the observer is a step
    # in a later layer of the same phase
    for flavor in ('none', 'flow'):
        for k in range(len(KINDS)):
            if flavor == 'flow' and q and KINDS[k] not in (
                    'add', 'delete', 'divide', 'move_out'):
                continue
            if KINDS[k] in ('generate_over', 'generate_into',
                            'regen_same_instant'):
                continue        # in-place generation during a phase: C10
            out.append(dict(name='stepobs-%s-%s' % (flavor, KINDS[k]),
                            flavor=flavor, ops=[k], stepobs=True,
                            budget_s=100 if q else 900))
        for a, b in [(0, 1), (2, 3), (5, 6)]:
            out.append(dict(name='stepobs-%s-%s-%s' % (
                flavor, KINDS[a], KINDS[b]), flavor=flavor, ops=[a, b],
                stepobs=True, budget_s=100 if q else 900))
    if not q:
        for a in (2, 3, 5):
            out.append(dict(name='none-%s-any-any' % KINDS[a], flavor='none',
                            ops=[a, None, None], budget_s=1500))
    return out


def body(ctx, cfg):
    if cfg.get('part') == 'replace':
        return part_replace(ctx, cfg)
    ts_a = ctx.int('tsa', 1, 2)
    ts_g = ctx.int('tsg', 1, 2)
    d = ctx.int('d', -3, 3)
    kinds = [k if k is not None else ctx.choice('op', len(KINDS))
             for k in cfg['ops']]
    stepobs = bool(cfg.get('stepobs'))
    # listing order: the observer (whose glob port declares only s.x) before
    # or after the actor (whose glob port on the same store declares more)
    obs_first = (not stepobs) and ctx.flag('obs_first')
    if obs_first:
        ctx.goal('observer declared before a wider glob declaration')
    below = False if stepobs else ctx.flag('below')
    home = ('h',) if below else ()
    up = ('..',) if below else ()
    if below:
        ctx.goal('observer below the root')
    wiring = {'agents': up + ('loc1',), 'g': up + ('g',),
              'one': up + ('g', '..', 'one'), 'out': up + ('outs',)}
    obs = Observer()
    tot = Tot({'ts': ctx.int('tst', 1, 2)})
    extra_p = {'tot': tot}
    extra_t = {'tot': {'g': ('g',), 'one': ('one',)}}
    extra_s = extra_f = None
    if stepobs:
        extra_s = {'obs': ObserverStep()}
        extra_f = {'obs': [('actor',)]}
        extra_t['obs'] = wiring
    elif below:
        extra_p['h'] = {'obs': obs}
        extra_t['h'] = {'obs': wiring}
    else:
        extra_p['obs'] = obs
        extra_t['obs'] = wiring
    def agent_states(proc, st):
        # a process inside a compartment (possibly one generated over an
        # existing compartment) is shown the current values of its own store
        e = CTX.get('engine')
        if e is None or CTX.get('stop_checks'):
            return
        ent = hist.live_objects(e.state).get(id(proc))
        if ent is None:
            return
        cur = get(e.state.get_value(), ent[0][:-1] + ('s',), None)
        want = {'x', 'y', 'm'} | ({'w'} if proc.parameters.get('wide')
                                  else set())
        ok = isinstance(cur, dict) and isinstance(st.get('s'), dict) and \
            set(st['s']) == want
        ctx.claim('C07.shape', ok, sig='shape-agent', info=lambda: dict(
            path=ent[0], states=st, hierarchy=cur))
        if ok:
            ctx.claim('C07.values', AND([EQ(st['s'][k], cur[k])
                                         for k in sorted(want)]),
                      sig='values-agent', info=lambda: dict(
                          path=ent[0], states=st, hierarchy=cur,
                          issued=[i[:2] for i in CTX['issued']]))
    pre = dict(ctx=ctx, home=home, wiring=wiring, kinds=[KINDS[k] for k in
                                                         kinds],
               agent_states_hook=agent_states,
               dtot=ctx.int('dtot', -3, 3), done=ctx.int('done', -3, 3))
    # hist.build clears CTX: install our entries through a tiny wrapper
    orig_clear = hist.CTX.clear
    e = None
    try:
        e = _build(ctx, kinds, cfg, ts_a, ts_g, d, extra_p, extra_t, pre,
                   extra_s, extra_f, obs_first)
        e.update(2 * len(kinds) + 2)
    except PathControl:
        raise
    except Exception as err:
        ctx.check_poison()
        CTX['stop_checks'] = True
        ctx.cut_foreign(err)


def _build(ctx, kinds, cfg, ts_a, ts_g, d, extra_p, extra_t, pre,
           extra_s=None, extra_f=None, obs_first=False):
    class E(hist.LoggedEngine):
        def __init__(self, *a, **kw):
            CTX.update(pre)
            super().__init__(*a, **kw)
    return hist.build(ctx, kinds, cfg['flavor'], ts_a, ts_g, d,
                      extra_processes=extra_p, extra_topology=extra_t,
                      engine_cls=E, extra_steps=extra_s, extra_flow=extra_f,
                      extra_first=obs_first,
                      issuer='flowstep' if extra_s else 'process')
