"""Kernel checks shared by C11 and C08: leaf functions whose semantics is
IEEE-754 / machine-independent integer arithmetic, decided on an SMT encoding
translated from the function's current source (vsym.kernels), with every
counterexample replayed on the real function."""
import math
import random

import numpy as np

from vivarium.core import registry
from vsym import kernels as K
from vsym.core import HarnessError

B62 = '(and (bvslt state %s) (bvsgt state %s))' % (K.bv(2 ** 62),
                                                  K.bv(-2 ** 62))
NONNEG62 = '(and (bvsge state %s) (bvslt state %s))' % (K.bv(0), K.bv(2 ** 62))
FLOAT_NORMAL = (
    '(and (not (fp.isNaN state)) (not (fp.isInfinite state)) '
    '(or (fp.isZero state) (fp.geq (fp.abs state) %s)))'
    % K.fp_const(2.0 ** -1021))


def _pair_int(val):
    if val.sort != 'list' or len(val.items) != 2:
        return 'false'
    a, b = val.items
    diff = '(bvsub %s %s)' % (a.term, b.term)
    return '(and (= (bvadd %s %s) state) (bvsle %s %s) (bvsge %s %s))' % (
        a.term, b.term, diff, K.bv(1), diff, K.bv(-1))


def _pair_float(val):
    if val.sort != 'list' or len(val.items) != 2:
        return 'false'
    a, b = val.items
    return '(fp.eq (fp.add RNE %s %s) state)' % (a.term, b.term)


def _pair_binomial(val):
    if val.sort != 'list' or len(val.items) != 2:
        return 'false'
    a, b = val.items
    return '(and (= (bvadd %s %s) state) (bvsge %s %s) (bvsge %s %s))' % (
        a.term, b.term, a.term, K.bv(0), b.term, K.bv(0))


def _nonneg(val):
    if val.sort != 'float':
        return 'false'
    return '(or (fp.isNaN %s) (fp.geq %s %s))' % (val.term, val.term,
                                                  K.fp_const(0.0))


def _nonneg_int(val):
    if val.sort != 'int':
        return 'false'
    s = '(bvadd current_value new_value)'
    return '(= %s (ite (bvsge %s %s) %s %s))' % (val.term, s, K.bv(0), s,
                                                 K.bv(0))


def _check_pair_int(state, out):
    a, b = out
    return a + b == state and abs(a - b) <= 1


def _check_pair_float(state, out):
    a, b = out
    return a + b == state


def _check_binomial(state, out):
    a, b = out
    return a + b == state and a >= 0 and b >= 0


KERNELS = {
    'split_int': dict(
        func='divide_split', sorts={'state': 'int'}, assume=[B62],
        prop=_pair_int, check=_check_pair_int,
        bound='|state| < 2^62 (64-bit signed, no overflow inside the bound), '
              'both outcomes of random.choice',
        text='a + b = state and |a - b| <= 1'),
    'split_float': dict(
        func='divide_split', sorts={'state': 'float'}, assume=[FLOAT_NORMAL],
        prop=_pair_float, check=_check_pair_float,
        bound='finite doubles with |state| >= 2^-1021 or zero (halving a '
              'smaller double is inexact: outside)',
        text='a + b = state'),
    'binomial': dict(
        func='divide_binomial', sorts={'state': 'int'}, assume=[NONNEG62],
        prop=_pair_binomial, check=_check_binomial,
        bound='0 <= state < 2^62, every value 0..state the RNG stub may return',
        text='c1 + c2 = state and c1, c2 >= 0'),
    'nonneg_float': dict(
        func='update_nonnegative_accumulate',
        sorts={'current_value': 'float', 'new_value': 'float'}, assume=[],
        prop=_nonneg, check=lambda args, out: out != out or out >= 0,
        bound='all doubles including inf, NaN, signed zeros, subnormals',
        text='result >= 0 or result is NaN'),
    'nonneg_int': dict(
        func='update_nonnegative_accumulate',
        sorts={'current_value': 'int', 'new_value': 'int'},
        assume=['(and (bvslt current_value %s) (bvsgt current_value %s) '
                '(bvslt new_value %s) (bvsgt new_value %s))' % (
                    K.bv(2 ** 61), K.bv(-2 ** 61), K.bv(2 ** 61),
                    K.bv(-2 ** 61))],
        prop=_nonneg_int,
        check=lambda args, out: out == max(args[0] + args[1], 0),
        bound='|v|, |u| < 2^61', text='result = max(v + u, 0)'),
}

VALIDATION_INPUTS = {
    'int': [0, 1, 2, 3, 7, 10, -1, -3, -10, 2 ** 53 - 1, 2 ** 53, 2 ** 53 + 1,
            2 ** 54 + 3, 2 ** 62 - 1, -(2 ** 53) - 1],
    'float': [0.0, -0.0, 1.0, 3.0, 0.1, -2.5, 1e308, 5e-324, 2.0 ** -1022,
              float('inf')],
}


class _FixedChoice:
    """Replaces the module-level RNGs of vivarium.core.registry for a replay."""

    def __init__(self, values):
        self.values = list(values)

    def __enter__(self):
        self.saved = (registry.random.choice, registry.np.random.binomial)
        vals = self.values

        def choice(seq):
            return vals.pop(0) if vals else seq[0]

        def binomial(n, p):
            return vals.pop(0) if vals else 0
        registry.random.choice = choice
        registry.np.random.binomial = binomial
        return self

    def __exit__(self, *a):
        registry.random.choice, registry.np.random.binomial = self.saved


def run_kernel(name, timeout_ms=300000, cross=False):
    """Returns dict(answer, counterexample, report).  answer in
    {'holds', 'violated', 'cannot-encode', 'undecided'}."""
    spec = KERNELS[name]
    func = getattr(registry, spec['func'])
    report = dict(kernel=name, function='vivarium.core.registry.' +
                  spec['func'], sorts=spec['sorts'], bound=spec['bound'],
                  property=spec['text'])
    try:
        tr = K.Translator(func, spec['sorts'])
        res = K.decide(tr, spec['assume'], spec['prop'], timeout_ms=timeout_ms)
    except K.CannotEncode as err:
        report.update(answer='cannot-encode', reason=str(err))
        return dict(answer='cannot-encode', report=report, cex=None)
    report.update(queries=res['queries'], solver_s=res['solver_s'],
                  paths=[dict(path=r['path'][:120], answer=r['answer'])
                         for r in res['results']],
                  logic='bit-vectors 64 + FloatingPoint 11 53, z3 4.8.12')
    answers = [r['answer'] for r in res['results']]
    if cross:
        report['crosscheck'] = K.crosscheck(
            lambda: K.Translator(func, spec['sorts']), spec['assume'],
            spec['prop'], answers)
        for sv, v in report['crosscheck'].items():
            if isinstance(v, dict) and not v['agree'] and \
                    'unknown' not in v['answers'] and v['answers']:
                raise HarnessError('kernel %s: %s disagrees with z3: %s vs %s'
                                   % (name, sv, v['answers'], answers))
    if 'unknown' in answers:
        report['answer'] = 'undecided'
        return dict(answer='undecided', report=report, cex=None)
    sat = [r for r in res['results'] if r['answer'] == 'sat']
    if not sat:
        report['answer'] = 'holds'
        report['validation'] = validate_encoding(name)
        return dict(answer='holds', report=report, cex=None)
    vals = K.model_values(sat[0]['model'], tr)
    args = [vals[a] for a in spec['sorts']]
    stub = [vals[n] for n, _ in tr.choices if n in vals]
    out = call_real(name, args, stub)
    ok = _holds(spec, args, out)
    report.update(answer='violated', inputs=repr(args), stub_values=repr(stub),
                  real_output=repr(out), reproduced=not ok)
    if ok:
        raise HarnessError('kernel %s: solver counterexample %r does not '
                           'reproduce on the real function (got %r)' % (
                               name, args, out))
    return dict(answer='violated', report=report,
                cex=dict(inputs=args, stub=stub, output=repr(out)))


def call_real(name, args, stub):
    spec = KERNELS[name]
    func = getattr(registry, spec['func'])
    with _FixedChoice(stub):
        try:
            return func(*args)
        except Exception as err:
            return err


def _holds(spec, args, out):
    if isinstance(out, Exception):
        return False
    a = args[0] if len(args) == 1 else args
    try:
        return bool(spec['check'](a, out))
    except Exception:
        return False


def validate_encoding(name):
    """Serval-style: push concrete inputs through the real function and
    through the encoding (assert arg = c; decide the same property) and
    require the verdicts to agree."""
    spec = KERNELS[name]
    func = getattr(registry, spec['func'])
    sorts = list(spec['sorts'].values())
    agree = 0
    total = 0
    if len(sorts) == 1:
        inputs = [(c,) for c in VALIDATION_INPUTS[sorts[0]]]
    else:
        base = VALIDATION_INPUTS[sorts[0]][:6]
        inputs = [(a, b) for a in base for b in base]
    for args in inputs:
        for stubv in ([True], [False]) if 'split_int' == name else ([],):
            if name == 'binomial':
                if args[0] < 0:
                    continue
                stubv = [args[0] // 3]
            out = call_real(name, list(args), list(stubv))
            real_ok = _holds(spec, list(args), out)
            tr = K.Translator(func, spec['sorts'])
            eqs = []
            for (an, srt), c in zip(spec['sorts'].items(), args):
                if srt == 'int':
                    if abs(c) >= 2 ** 63:
                        continue
                    eqs.append('(= %s %s)' % (an, K.bv(c)))
                else:
                    eqs.append('(= %s %s)' % (an, K.fp_const(c)))
            paths = tr.paths()
            for (n, kind), v in zip(tr.choices, stubv):
                eqs.append('(= %s %s)' % (n, ('true' if v else 'false')
                                          if kind == 'random.choice'
                                          else K.bv(v)))
            res = K.decide(K.Translator(func, spec['sorts']), [], spec['prop'])\
                if False else _decide_fixed(tr, paths, eqs, spec['prop'])
            total += 1
            if res == (not real_ok):
                agree += 1
    return dict(inputs=total, agree=agree)


def _decide_fixed(tr, paths, eqs, prop):
    """True when the encoding says the property is violated on the fixed
    input."""
    from vsym.solver import Solver
    s = Solver(logic=None, timeout_ms=60000)
    try:
        for d in tr.decls:
            s.send(d)
        for a in eqs + tr.side:
            s.send('(assert %s)' % a)
        for pc, val in paths:
            s.send('(push)')
            for c in pc:
                s.send('(assert %s)' % c)
            feasible = s.check()
            if feasible == 'sat':
                p = prop(val)
                s.send('(assert (not %s))' % p)
                r = s.check()
                s.send('(pop)')
                return r == 'sat'
            s.send('(pop)')
        return False
    finally:
        s.close()
