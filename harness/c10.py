"""C10 - the engine runs exactly what is in the hierarchy after any structural
history."""
import copy

from vivarium.core.engine import Engine
from vivarium.core.process import Process
from vivarium.library.topology import get_in

from vsym.core import AND, OR, NOT, EQ, ite, MIN, is_sym, PathControl
from vsym.resolve import store_nodes
from vsym import stubs
from . import hist
from .hist import LOG, CTX, KINDS

PROPERTY = 'C10'
CLAIMS = {
    'C10.runs': 'no structural history makes the engine raise',
    'C10.only_live': 'every process or step invocation is by an object that is '
                     'in the hierarchy at that moment',
    'C10.schedule': 'each process instance is invoked contiguously on its own '
                    'timestep (cut at the end of an update() call), an initial '
                    'process starts at 0, a created one at the time its '
                    'creating update is applied, and every live process is '
                    'simulated up to the end of each update() call',
    'C10.steps_once': 'in each step phase exactly the steps present in the '
                      'hierarchy when the phase begins run, each once',
    'C10.published': 'the composite the engine publishes (processes, steps, '
                     'topology, flow) equals the hierarchy as leaf maps '
                     'path -> object / topology / flow; so does the Composite '
                     'object the engine was built from',
    'C10.bookkeeping': 'the engine\'s registered process paths and step paths '
                       '(graph and sequential list, no duplicates) are exactly '
                       'the live ones',
    'C10.rebuild': 'a second engine built from the published composite and the '
                   'current state at a quiescent point emits the same rows as '
                   'the continued engine',
}
OPTIONAL_CLAIMS = ('C10.runs',)
GOALS = {'quick': ['structure changed with an update in flight',
                   'step created by an operation', 'process deleted',
                   'engine built from a Composite',
                   'operations issued through ports wired with ".."'],
         'thorough': ['structure changed with an update in flight',
                      'step created by an operation', 'process deleted',
                      'engine built from a Composite',
                      'operations issued through ports wired with ".."']}
STUBS = ['pure Grow processes / Der steps logging their invocations together '
         'with a liveness check by own traversal; actor process issuing the '
         'history; Engine subclass that only brackets run_steps to mark '
         'phases; recording emitter']
ASSUMPTIONS = [
    'glob ports declare a non-empty sub-schema; an update addressed to a '
    'compartment removed earlier in the same batch is expected to be dropped',
    'integer time; constant symbolic timesteps: actor in [1,2], agents in '
    '[1,3] so that agent updates are in flight when structure changes']
BOUNDS = {'quick': '8 operation kinds (add, delete, generate, divide with '
                   'explicit daughters, divide copying the mother, move out, '
                   'move in, generate under the key of a removed compartment) x histories of length 1 (all) and 2 (selected '
                   'pairs) x agent flavours flow / legacy / none; issued by a '
                   'process, by a legacy deriver or by a first-layer flow step '
                   'during a step phase',
          'thorough': 'all histories of length 2, length 3 for flavour flow; '
                      'continuation update(T<=3)'}
OUTSIDE = 'parallel processes (C13); nested compartments deeper than ' \
          'loc/agent'


def jobs(tier):
    q = tier == 'quick'
    out = []
    for flavor in ('flow', 'legacy', 'none'):
        for k in range(len(KINDS)):
            out.append(dict(name='%s-%s' % (flavor, KINDS[k]), flavor=flavor,
                            ops=[k], budget_s=100 if q else 900))
        if q:
            pairs = [(2, 3), (3, 5), (2, 5), (5, 6), (4, 1), (2, 4), (1, 7),
                     (5, 7)]
            if flavor == 'none':
                pairs = pairs[:2]
            if flavor == 'legacy':
                # a daughter's copied deriver replaced by a generated process
                # (the history behind /repo 9177a5d)
                pairs = pairs + [(4, 2), (4, 7), (4, 9)]
            for a, b in pairs:
                out.append(dict(name='%s-%s-%s' % (flavor, KINDS[a], KINDS[b]),
                                flavor=flavor, ops=[a, b], budget_s=100))
        else:
            for a in range(len(KINDS)):
                out.append(dict(name='%s-%s-any' % (flavor, KINDS[a]),
                                flavor=flavor, ops=[a, None], budget_s=1200,
                                crosscheck=10))
    # compartments that hold steps only (a clock process keeps time going)
    for k in (1, 4, 5, 2):
        out.append(dict(name='flowonly-%s' % KINDS[k], flavor='flowonly',
                        ops=[k], budget_s=100 if q else 900))
    for issuer in ('deriver', 'flowstep'):
        for k in range(len(KINDS)):
            if KINDS[k] in ('generate_into', 'regen_same_instant'):
                continue        # covered with a process as issuer
            if KINDS[k] == 'generate_over':
                # a step replaced in place in the middle of a step phase:
                # the statement does not say which object runs in that phase
                continue
            out.append(dict(name='%s-flow-%s' % (issuer, KINDS[k]),
                            flavor='flow', ops=[k], issuer=issuer,
                            budget_s=100 if q else 900))
        for a, b in [(2, 1), (2, 3), (3, 5)]:
            out.append(dict(name='%s-flow-%s-%s' % (issuer, KINDS[a], KINDS[b]),
                            flavor='flow', ops=[a, b], issuer=issuer,
                            budget_s=100 if q else 900))
    # engine built from a Composite object (kept in sync by the engine); the
    # first compartment has no steps, later ones bring steps and flow
    for first in ('none', 'flow'):
        for ops in ([2], [3], [4], [5], [2, 5], [2, 3], [2, 1]):
            out.append(dict(name='composite-%s-%s' % (
                first, '-'.join(KINDS[k] for k in ops)), flavor='flow',
                first_flavor=first, ops=ops, via_composite=True,
                budget_s=100 if q else 900))
    if not q:
        for a in (2, 3, 5):
            out.append(dict(name='flow-%s-any-any' % KINDS[a], flavor='flow',
                            ops=[a, None, None], budget_s=1500))
    return out


def classify(err, issued):
    msg = str(err)
    last = issued[-1][0] if issued else 'none'
    if 'still pending' in msg:
        obj = hist.raising_process(err)
        if obj is None:
            cls = 'command-still-pending'
        elif id(obj) in CTX.get('moved_ids', ()):
            return 'command-still-pending:process-moved-while-in-flight'
        elif id(obj) not in hist.CREATED:
            return 'command-still-pending:process-copied-by-divide-while-' \
                   'in-flight'
        else:
            cls = 'command-still-pending'
    elif 'overlapping steps' in msg:
        cls = 'step-registered-twice'
    elif 'not a valid path' in msg:
        cls = 'invalid-path'
    else:
        cls = type(err).__name__
    return '%s:after-%s' % (cls, last)


def lm(d, pre=()):
    out = {}
    for k, v in (d or {}).items():
        if isinstance(v, dict):
            out.update(lm(v, pre + (k,)))
        else:
            out[pre + (k,)] = v
    return out


def body(ctx, cfg):
    ts_a = ctx.int('tsa', 1, 2)
    ts_g = ctx.int('tsg', 1, 3)
    d = ctx.int('d', -3, 3)
    kinds = [k if k is not None else ctx.choice('op', len(KINDS))
             for k in cfg['ops']]
    ctx.note('history', [KINDS[k] for k in kinds])
    sink = stubs.reset_sink()
    issuer = cfg.get('issuer', 'process')
    actor_last = ctx.flag('actor_last') if issuer == 'process' else False
    actor_below = ctx.flag('actor_below') if (
        issuer == 'process' and len(kinds) == 1) else False
    ctx.note('actor_last', actor_last)
    ctx.note('issuer', issuer)
    e = hist.build(ctx, kinds, cfg['flavor'], ts_a, ts_g, d,
                   emitter={'type': 'vsym_rec', 'tag': 'A'},
                   actor_last=actor_last, issuer=issuer,
                   first_flavor=cfg.get('first_flavor'),
                   via_composite=bool(cfg.get('via_composite')),
                   actor_below=actor_below)
    if actor_below:
        ctx.goal('operations issued through ports wired with ".."')
    if cfg.get('via_composite'):
        ctx.goal('engine built from a Composite')
    H = 2 * len(kinds) + 1
    T = ctx.int('T', 1, 3)
    ends = [H, H + T]
    info = lambda: dict(history=[KINDS[k] for k in kinds],
                        issued=[i[:2] for i in CTX['issued']],
                        log=[l for l in LOG if l[0] != 'phase_end'][:80])

    def run(iv):
        try:
            e.update(iv)
            return True
        except PathControl:
            raise
        except Exception as err:
            ctx.check_poison()
            ctx.claim('C10.runs', False, sig=classify(err, CTX['issued']),
                      info=lambda: dict(error=repr(err), **info()))
            return False
    if not run(H):
        return
    ctx.claim('C10.runs', True)
    static_claims(ctx, e, info)
    quiescent_state = copy.deepcopy(e.state.get_value(
        condition=lambda s: not isinstance(s.value, Process)))
    g_quiescent = e.global_time
    n_rows = len(sink['tags'].get('A', []))
    if not run(T):
        return
    static_claims(ctx, e, info)
    invocation_claims(ctx, e, ts_a, ts_g, ends, info)
    # ---- rebuild from the published composite
    log_len = len(LOG)
    try:
        e2 = Engine(processes=e.processes, steps=e.steps, flow=e.flow,
                    topology=e.topology, initial_state=quiescent_state,
                    initial_global_time=g_quiescent, display_info=False,
                    emitter={'type': 'vsym_rec', 'tag': 'B'})
        e2.update(T)
    except PathControl:
        raise
    except Exception as err:
        ctx.check_poison()
        ctx.claim('C10.rebuild', False, sig='rebuild-raises:' +
                  type(err).__name__, info=lambda: dict(error=repr(err),
                                                        **info()))
        return
    ra = sink['tags'].get('A', [])[n_rows:]
    rb = sink['tags'].get('B', [])[1:]
    eq = [len(ra) == len(rb)]
    for x, y in zip(ra, rb):
        lx, ly = stubs.leaves(x), stubs.leaves(y)
        eq.append(set(lx) == set(ly))
        eq += [EQ(lx[k], ly[k]) for k in lx if k in ly]
    ctx.claim('C10.rebuild', AND(eq), sig='rebuild-rows', info=lambda: dict(
        continued=ra, rebuilt=rb, **info()))
    for x in ra:
        for k, v in sorted(stubs.leaves(x).items()):
            ctx.observe(str(k), v)


def static_claims(ctx, e, info):
    """Bookkeeping and published composite against the hierarchy."""
    sp = {p: n for p, n in store_nodes(e.state).items()
          if not n.inner and isinstance(n.value, Process)}
    live_p = {p for p, n in sp.items() if not n.value.is_step()}
    live_s = {p for p, n in sp.items() if n.value.is_step()}
    # published composite as leaf maps
    pub = {**lm(e.processes), **lm(e.steps)}
    published = [
        {p: id(v) for p, v in pub.items()} ==
        {p: id(n.value) for p, n in sp.items()},
        {p: get_in(e.topology, p) for p in pub} ==
        {p: n.topology for p, n in sp.items()},
        {p: v for p, v in lm_flow(e.flow).items() if v is not None} ==
        {p: n.flow for p, n in sp.items() if n.flow is not None},
    ]
    names = ['processes+steps', 'topology', 'flow']
    bad = '+'.join(n for n, ok in zip(names, published) if not ok)
    both = sorted(set(lm(e.processes)) & set(lm(e.steps)))
    if both and not published[0]:
        # one path published under processes AND under steps (with two
        # different objects): its own signature
        bad = 'path-under-processes-and-steps'

    ctx.claim('C10.published', all(published), sig='published:' + bad,
              info=lambda: dict(published=sorted(map(str, pub)),
                                hierarchy=sorted(map(str, sp)),
                                flow=repr(e.flow), **info()))
    comp = CTX.get('composite')
    if comp is not None:
        # the Composite the engine was built from describes the same hierarchy
        cpub = {**lm(comp['processes']), **lm(comp['steps'])}
        synced = [
            {p: id(v) for p, v in cpub.items()} ==
            {p: id(n.value) for p, n in sp.items()},
            {p: get_in(comp['topology'], p) for p in cpub} ==
            {p: n.topology for p, n in sp.items()},
            {p: v for p, v in lm_flow(comp['flow']).items() if v is not None}
            == {p: n.flow for p, n in sp.items() if n.flow is not None},
        ]
        bad = '+'.join(n for n, ok in zip(names, synced) if not ok)
        ctx.claim('C10.published', all(synced), sig='composite-object:' + bad,
                  info=lambda: dict(composite_flow=repr(comp['flow']),
                                    engine_flow=repr(e.flow), **info()))
    book = []
    if hasattr(e, 'process_paths'):
        book.append(set(e.process_paths) == live_p)
    if hasattr(e, '_step_paths'):
        book.append(set(e._step_paths) == live_s)
    sg = getattr(e, '_step_graph', None)
    if sg is not None and hasattr(sg, '_sequential_steps'):
        seq = list(sg._sequential_steps)
        book.append(len(seq) == len(set(seq)))
        book.append(set(sg._graph.nodes) | set(seq) == live_s)
        book.append(not (set(sg._graph.nodes) & set(seq)))
    ctx.claim('C10.bookkeeping', all(book), sig='bookkeeping', info=info)


def lm_flow(d, pre=()):
    out = {}
    for k, v in (d or {}).items():
        if isinstance(v, dict):
            out.update(lm_flow(v, pre + (k,)))
        else:
            out[pre + (k,)] = v
    return out


def invocation_claims(ctx, e, ts_a, ts_g, ends, info):
    live = hist.live_objects(e.state)
    G = e.global_time
    # ---- only_live
    ctx.claim('C10.only_live',
              all(l[-1] for l in LOG if l[0] in ('proc', 'step')),
              sig='only_live', info=info)
    # ---- schedule of Grow instances
    by_id = {}
    for l in LOG:
        if l[0] == 'proc':
            by_id.setdefault(l[1], []).append(l)
    issue_apply = []      # apply times of issued structural updates
    for l in LOG:
        if l[0] == 'issue' and l[1] is not None:
            issue_apply.append(l[2] + l[3])
            if l[1][0] in ('delete',):
                ctx.goal('process deleted')
    actor_id = id(CTX['actor'])
    initial_ids = {id(p) for k, p in
                   CTX['first_agent']['processes'].items() if k == 'grow'}
    sched = []

    def end_of(t):
        """end of the update() call that contains time t (t < end)"""
        return ite(t < ends[0], ends[0], ends[1])
    for pid, evs in by_id.items():
        if pid == actor_id:
            continue
        for a, b in zip(evs, evs[1:]):
            sched.append(EQ(b[2], a[2] + a[3]))
        for a in evs:
            sched.append(EQ(a[3], MIN(ts_g, end_of(a[2]) - a[2])))
        if pid in initial_ids:
            sched.append(EQ(evs[0][2], 0))
        else:
            sched.append(OR([EQ(evs[0][2], t) for t in issue_apply]))
        if pid in live:
            last = evs[-1]
            sched.append(EQ(last[2] + last[3], G))
    for pid, (path, obj) in live.items():
        if isinstance(obj, hist.Grow):
            sched.append(pid in by_id)
    ctx.claim('C10.schedule', AND(sched), sig='schedule', info=info)
    # ---- in flight witness: an issue applied strictly inside an agent interval
    if ctx.symbolic and 'structure changed with an update in flight' not in \
            ctx.goals:
        for t in issue_apply:
            for pid, evs in by_id.items():
                for a in evs:
                    c = AND(a[2] < t, t < a[2] + a[3])
                    if c is not False and (c is True or
                                           ctx.solver.check_assuming(c.s)
                                           == 'sat'):
                        ctx.goal('structure changed with an update in flight')
    # ---- steps once per phase
    phases = {}
    for l in LOG:
        if l[0] == 'phase_begin':
            phases[l[1]] = dict(live=l[2], ran=[])
        elif l[0] == 'phase_end':
            phases[l[1]]['live_end'] = l[2]
        elif l[0] == 'step':
            phases.setdefault(l[3], dict(live=set(), ran=[]))['ran'].append(
                l[1])
    # every step present when the phase begins runs exactly once unless it is
    # deleted before its turn (then it is gone at the end of the phase); a
    # step created during the phase does not run in it
    ok = True
    for k, ph in phases.items():
        ran = ph['ran']
        ok &= len(ran) == len(set(ran))
        ok &= set(ran) <= set(ph['live'])
        ok &= all(s in ran for s in ph['live'] if s in ph.get('live_end', ()))
    ctx.claim('C10.steps_once', ok, sig='steps_once', info=lambda: dict(
        phases={k: (sorted(v['live']), v['ran'],
                    sorted(v.get('live_end', ()))) for k, v in phases.items()},
        **info()))
    for i in CTX['issued']:
        if i[0] in ('generate', 'divide') and any(
                ph['ran'] for ph in phases.values()):
            if CTX['first_agent']['steps'] or 'der' in \
                    CTX['first_agent']['processes']:
                ctx.goal('step created by an operation')
