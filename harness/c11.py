"""C11 - division gives daughters what the dividers promise; daughters are
independent."""
import copy

from vivarium.core.engine import Engine
from vivarium.core.process import Process, Step
from vivarium.core.registry import (
    divider_registry, divide_set, divide_zero, divide_set_value,
    divide_split_dict, divide_null)

from vsym.core import AND, OR, NOT, EQ, is_sym, PathControl
from vsym.resolve import store_nodes, get
from . import kern

PROPERTY = 'C11'
CLAIMS = {
    'C11.kernel': 'leaf dividers decided on an SMT encoding of their current '
                  'source: split (int: a+b=state, |a-b|<=1; float: a+b=state), '
                  'binomial (c1+c2=state, both >=0)',
    'C11.functions': 'set copies, zero gives zeros, set_value gives the '
                     'configured value, split_dict partitions the keys (union = '
                     'state, disjoint, sizes differ by at most 1), null gives '
                     'nothing',
    'C11.shares': 'each daughter variable holds its divider\'s share, overridden '
                  'only by the explicit daughter initial state and completed by '
                  'schema defaults; dividers with topology/config receive them; '
                  'branch-level dividers act on the branch',
    'C11.conserved': 'for split variables the daughters\' values sum to the '
                     'mother\'s over one and two generations',
    'C11.processes': 'daughters hold separate process instances, distinct from '
                     'the mother\'s',
    'C11.independent': 'an update applied to one daughter afterwards (accumulate, '
                       'set, in-place dict_value) changes neither the other '
                       'daughter nor anything outside',
}
GOALS = {'quick': ['explicit initial state overrides a share',
                   'second generation', 'copied processes'],
         'thorough': ['explicit initial state overrides a share',
                      'second generation', 'copied processes']}
STUBS = ['divider process issuing _divide; user dividers registered through the '
         'schema (function, dict with topology, dict with config)',
         'random.choice / np.random.binomial replaced by a free variable in the '
         'kernel encoding and by the model value in the replay']
ASSUMPTIONS = ['kernel bounds: |state| < 2^62 for integers; finite doubles with '
               '|x| >= 2^-1021 or 0 for the float split',
               'in the store-level scenario the split variable takes solver-'
               'chosen concrete values from {0,1,4,7,-3} (its full range is the '
               'kernel\'s business); other values symbolic']
BOUNDS = {'quick': 'mother with 11 variables (two declared only through the '
                   'glob schema of the dividing process outside the '
                   'compartment; set, split, zero, set_value, '
                   'null+default, split_dict, user divider with topology, user '
                   'divider with config, branch-level divider), daughters with '
                   'explicit or copied processes, symbolic presence of explicit '
                   'initial-state entries, depth 0 or 1, one or two generations',
          'thorough': 'same, depth 0..2'}
OUTSIDE = 'quantities; subnormal floats; integers beyond 64 bits'

CTX = {}


def user_topo_divider(value, state):
    # receives the value of another variable through its topology
    return [value + state['other'], value - state['other']]


def user_config_divider(value, config):
    return [value + config['k'], value]


def user_both_divider(value, state, config):
    # receives another variable through its topology and a config
    return [value + state['other'] + config['k'], value - state['other']]


def branch_divider(value):
    # value is the dictionary of the whole branch
    return [{'p': value['p'], 'q': 0}, {'p': 0, 'q': value['q']}]


def branch_config_divider(value, config):
    # branch-level divider given as a dictionary with a config
    if not isinstance(value, dict):
        # not the branch's state: remembered and claimed below
        CTX['bad_divider_arg'] = repr(value)
        return [{}, {}]
    return [{'p': value['p'] + config['k'], 'q': 0},
            {'p': 0, 'q': value['q']}]


def schema():
    return {'s': {
        'set': {'_default': 0},
        'split': {'_default': 0, '_divider': 'split'},
        'zero': {'_default': 0, '_divider': 'zero'},
        'setv': {'_default': 0, '_divider': {'divider': 'set_value',
                                              'config': {'value': 11}}},
        'nul': {'_default': 9, '_divider': 'null'},
        'sd': {'_default': {}, '_updater': 'set', '_divider': 'split_dict'},
        'topo': {'_default': 0, '_divider': {
            'divider': user_topo_divider,
            'topology': {'other': ('..', 'other',)}}},
        'other': {'_default': 0},
        'conf': {'_default': 0, '_divider': {'divider': user_config_divider,
                                              'config': {'k': 5}}},
        'both': {'_default': 0, '_divider': {
            'divider': user_both_divider,
            'topology': {'other': ('..', 'other',)}, 'config': {'k': 3}}},
        'mut': {'_default': {}, '_updater': 'dict_value'},
        'br': {'_divider': branch_divider,
               'p': {'_default': 0}, 'q': {'_default': 0}},
        'br2': {'_divider': {'divider': branch_config_divider,
                             'config': {'k': 2}},
                'p': {'_default': 0}, 'q': {'_default': 0}},
    }}


class Holder(Process):
    def ports_schema(self):
        return schema()

    def next_update(self, timestep, states):
        return {}


class HolderStep(Step):
    """a step inside the mother (copied to the daughters when they list no
    processes of their own)"""

    def ports_schema(self):
        return {'s': {'set': {'_default': 0}}}

    def next_update(self, timestep, states):
        return {}


class Divider(Process):
    def ports_schema(self):
        # 'env' is declared for every agent only here, through the glob
        # schema of the store holding the compartments: no process inside a
        # compartment declares it
        return {'agents': {'*': dict(schema(), env={
            'vol': {'_default': 2, '_divider': 'split'},
            'lab': {'_default': 0}})}}

    def next_update(self, timestep, states):
        if not CTX['queue']:
            return {}
        return {'agents': CTX['queue'].pop(0)}


def jobs(tier):
    q = tier == 'quick'
    out = [dict(name='kernel-%s' % k, part='kernel', kernel=k, budget_s=600,
                validate=0, cross=not q)
           for k in ('split_int', 'split_float', 'binomial')]
    out.append(dict(name='functions', part='functions', budget_s=100))
    for depth in ((0, 1) if q else (0, 1, 2)):
        for copied in (False, True):
            out.append(dict(name='store-d%d-%s' % (
                depth, 'copied' if copied else 'explicit'), part='store',
                depth=depth, copied=copied, budget_s=100 if q else 900,
                crosscheck=0 if q else 20))
    return out


def body(ctx, cfg):
    return globals()['part_' + cfg['part']](ctx, cfg)


def part_kernel(ctx, cfg):
    r = kern.run_kernel(cfg['kernel'], cross=cfg.get('cross', False))
    ctx.report('kernels', r['report'])
    if r['answer'] == 'cannot-encode':
        # the translator does not cover the function's current source: the
        # kernel claim is not made on this tree (reported, not approximated)
        ctx.note('kernel_not_encodable', r['report'].get('reason', ''))
        ctx.report('kernels_not_encodable', cfg['kernel'])
        print('NOTE property=%s kernel %s cannot be encoded on this source '
              '(%s): claim not made' % (PROPERTY, cfg['kernel'],
                                        r['report'].get('reason', '')))
        return
    if r['answer'] == 'undecided':
        from vsym.core import HarnessError
        raise HarnessError('kernel %s: %s %s' % (
            cfg['kernel'], r['answer'], r['report'].get('reason', '')))
    ctx.claim('C11.kernel', r['answer'] == 'holds',
              sig='kernel:' + cfg['kernel'], info=lambda: r['cex'])


def part_functions(ctx, cfg):
    v = ctx.int('v', -9, 9)
    a, b = divide_set(v)
    z = divide_zero(v)
    c = ctx.int('c', -9, 9)
    sv = divide_set_value(v, {'value': c})
    keys = [k for k in 'abcde' if ctx.flag('has')]
    d = {k: ctx.int('dv', -5, 5) for k in keys}
    d0 = dict(d)
    d1, d2 = divide_split_dict(d)
    part = [set(d1) | set(d2) == set(keys), not (set(d1) & set(d2)),
            abs(len(d1) - len(d2)) <= 1]
    part += [EQ(x[k], d0[k]) for x in (d1, d2) for k in x]
    e1, e2 = divide_split_dict(None)
    ctx.claim('C11.functions', AND(
        [EQ(a, v), EQ(b, v), z == [0, 0], EQ(sv[0], c), EQ(sv[1], c),
         divide_null(v) is None, e1 == {} and e2 == {}] + part),
        sig='functions', info=lambda: dict(keys=keys, d1=d1, d2=d2))
    # quantities and the string 'Infinity' (concrete, chosen by forking)
    from vivarium.core.registry import divide_split
    from vivarium.library.units import units
    q = [4.0 * units.g, 3 * units.mg, 0.0 * units.m][ctx.choice('q', 3)]
    qa, qb = divide_split(q)
    ia, ib = divide_split('Infinity')
    fa, fb = divide_split(float('inf'))
    ctx.claim('C11.functions', qa + qb == q and qa.units == q.units
              and ia == 'Infinity' and ib == 'Infinity'
              and fa == float('inf') and fb == float('inf'),
              sig='split-quantity', info=lambda: dict(q=str(q), a=str(qa),
                                                      b=str(qb)))
    names = {'set': divide_set, 'zero': divide_zero,
             'set_value': divide_set_value, 'split_dict': divide_split_dict,
             'null': divide_null}
    ctx.claim('C11.functions', all(divider_registry.access(k) is f
                                   for k, f in names.items()), sig='registry')


SPLIT_VALUES = [0, 1, 4, 7, -3]


def part_store(ctx, cfg):
    CTX.clear()
    depth = cfg['depth']
    pre = ('colony', 'inner')[:depth]
    vals = {k: ctx.int('v', -9, 9) for k in ('set', 'zero', 'setv', 'nul',
                                             'topo', 'other', 'conf', 'p', 'q')}
    split_v = SPLIT_VALUES[ctx.choice('sv', len(SPLIT_VALUES))]
    sd = {k: ctx.int('sd', -5, 5) for k in 'abc'}
    mut = {'k': {'f': ctx.int('mf', -5, 5)}}
    mother_state = {'s': {
        'set': vals['set'], 'split': split_v, 'zero': vals['zero'],
        'setv': vals['setv'], 'nul': vals['nul'], 'sd': dict(sd),
        'topo': vals['topo'], 'other': vals['other'], 'conf': vals['conf'],
        'both': vals['zero'],
        'mut': mut, 'br': {'p': vals['p'], 'q': vals['q']},
        'br2': {'p': vals['q'], 'q': vals['p']}}}
    env_vol = [6, 3][ctx.choice('ev', 2)]
    env_lab = ctx.int('v', -9, 9)
    mother_state['env'] = {'vol': env_vol, 'lab': env_lab}
    env_explicit = {}
    if ctx.flag('exenv'):
        env_explicit['lab'] = ctx.int('xv', -2, 2)
    holder = Holder()
    # explicit initial state entries for daughter 0, symbolic presence
    explicit = {}
    for var in ('set', 'split', 'nul'):
        if ctx.flag('ex'):
            explicit[var] = ctx.int('xv', -2, 2)
    # a listed state that reaches INSIDE the dictionary-valued variable of
    # daughter 0 (the default divider hands both daughters the mother's
    # dictionary): daughter 1 keeps the mother's content
    mut_explicit = ctx.flag('exmut')
    if explicit:
        ctx.goal('explicit initial state overrides a share')

    def daughters(key):
        ds = []
        for i in (0, 1):
            dd = {'key': key + str(i)}
            if not cfg['copied']:
                dd['processes'] = {'holder': Holder()}
                dd['topology'] = {'holder': {'s': ('s',)}}
            dd['initial_state'] = {'s': dict(explicit)} if i == 0 else {}
            if i == 0 and mut_explicit:
                dd['initial_state'].setdefault('s', {})['mut'] = {
                    'k': {'f': 77}}
            if i == 0 and env_explicit:
                dd['initial_state']['env'] = dict(env_explicit)
            ds.append(dd)
        return ds
    if cfg['copied']:
        ctx.goal('copied processes')

    def nest(d):
        for seg in reversed(pre):
            d = {seg: d}
        return d
    two_gen = ctx.flag('two_generations')
    d1 = daughters('m')
    CTX['queue'] = [{'_divide': {'mother': 'm', 'daughters': d1}}]
    divider = Divider()
    processes = nest({'divider': divider,
                      'agents': {'m': {'holder': holder}}})
    topology = nest({'divider': {'agents': ('agents',)},
                     'agents': {'m': {'holder': {'s': ('s',)}}}})
    init = nest({'agents': {'m': mother_state},
                 'outside': {'w': vals['other']}})
    kwargs = {}
    hstep = None
    if cfg['copied']:
        # the mother also holds a step: the daughters get copies of it
        hstep = HolderStep()
        kwargs = dict(steps=nest({'agents': {'m': {'hs': hstep}}}),
                      flow=nest({'agents': {'m': {'hs': []}}}))
        t = topology
        for seg in pre:
            t = t[seg]
        t['agents']['m']['hs'] = {'s': ('s',)}
    e = Engine(processes=processes, topology=topology, initial_state=init,
               emitter='null', display_info=False, **kwargs)
    mother_ids = {id(holder)}
    e.update(1)
    root = get(e.state.get_value(), pre)
    ag = root['agents']
    info = lambda: dict(mother=mother_state, explicit=explicit,
                        daughters={k: v.get('s') for k, v in ag.items()})
    ok_keys = sorted(ag) == ['m0', 'm1']
    ctx.claim('C11.shares', ok_keys, sig='daughter-keys', info=info)
    if not ok_keys:
        return
    s0, s1 = ag['m0']['s'], ag['m1']['s']

    def share(var, a, b):
        """expected (daughter0, daughter1) for a variable"""
        x0 = explicit.get(var, a)
        return [EQ(s0[var], x0), EQ(s1[var], b)]
    sh = []
    sh += share('set', vals['set'], vals['set'])
    sh += share('zero', 0, 0)
    sh += share('setv', 11, 11)
    sh += share('nul', 9, 9)                   # null divider -> schema default
    sh += share('topo', vals['topo'] + vals['other'],
                vals['topo'] - vals['other'])
    sh += share('conf', vals['conf'] + 5, vals['conf'])
    sh += share('both', vals['zero'] + vals['other'] + 3,
                vals['zero'] - vals['other'])
    sh += [EQ(s0['br']['p'], vals['p']), EQ(s0['br']['q'], 0),
           EQ(s1['br']['p'], 0), EQ(s1['br']['q'], vals['q'])]
    sh += [EQ(s0['br2']['p'], vals['q'] + 2), EQ(s0['br2']['q'], 0),
           EQ(s1['br2']['p'], 0), EQ(s1['br2']['q'], vals['p'])]
    sh += [EQ(s0['other'], vals['other']), EQ(s1['other'], vals['other'])]
    # split_dict: a partition of the keys with the mother's values
    k0, k1 = set(s0['sd']), set(s1['sd'])
    sh += [k0 | k1 == set(sd), not (k0 & k1), abs(len(k0) - len(k1)) <= 1]
    sh += [EQ(x[k], sd[k]) for x in (s0['sd'], s1['sd']) for k in x]
    # split: exact halves
    if 'split' in explicit:
        sh.append(EQ(s0['split'], explicit['split']))
        sh.append(abs(2 * s1['split'] - split_v) <= 1)
    else:
        ctx.claim('C11.conserved', s0['split'] + s1['split'] == split_v
                  and abs(s0['split'] - s1['split']) <= 1, sig='conserved-1',
                  info=info)
    ctx.claim('C11.shares', 'bad_divider_arg' not in CTX,
              sig='branch-divider-argument',
              info=lambda: dict(received=CTX.get('bad_divider_arg')))
    sh.append(EQ(s1['mut']['k']['f'], mut['k']['f']))
    sh.append(EQ(s0['mut']['k']['f'], 77 if mut_explicit else mut['k']['f']))
    ctx.claim('C11.shares', AND(sh), sig='shares', info=info)
    # variables declared only by the glob schema of an outside process
    e0, e1 = ag['m0'].get('env', {}), ag['m1'].get('env', {})
    ok_env = all(set(x) == {'vol', 'lab'} for x in (e0, e1))
    if ok_env:
        ok_env = AND(EQ(e0['lab'], env_explicit.get('lab', env_lab)),
                     EQ(e1['lab'], env_lab),
                     e0['vol'] + e1['vol'] == env_vol,
                     abs(e0['vol'] - e1['vol']) <= 1)
    ctx.claim('C11.shares', ok_env, sig='shares-glob-declared',
              info=lambda: dict(mother_env=mother_state['env'],
                                explicit=env_explicit, m0=e0, m1=e1))
    for var in ('set', 'topo', 'conf'):
        ctx.observe(var + '0', s0[var])
        ctx.observe(var + '1', s1[var])
    # ---- processes
    nodes = store_nodes(e.state)
    procs = {p: n.value for p, n in nodes.items()
             if not n.inner and isinstance(n.value, Holder)}
    p0 = procs.get(pre + ('agents', 'm0', 'holder'))
    p1 = procs.get(pre + ('agents', 'm1', 'holder'))
    if hstep is not None:
        hs = {p: n.value for p, n in nodes.items()
              if not n.inner and isinstance(n.value, HolderStep)}
        h0 = hs.get(pre + ('agents', 'm0', 'hs'))
        h1 = hs.get(pre + ('agents', 'm1', 'hs'))
        ctx.claim('C11.processes', h0 is not None and h1 is not None
                  and h0 is not h1 and h0 is not hstep and h1 is not hstep,
                  sig='steps-copied', info=info)
    ctx.claim('C11.processes', p0 is not None and p1 is not None
              and p0 is not p1 and id(p0) not in mother_ids
              and id(p1) not in mother_ids, sig='processes', info=info)
    # ---- independence: update daughter 0 only
    before = {p: (id(n), copy.deepcopy(n.value)) for p, n in nodes.items()
              if not n.inner and not isinstance(n.value, Process)}
    du = ctx.int('du', 1, 5)
    e.state.apply_update(nest({'agents': {'m0': {'s': {
        'set': du, 'sd': {'zz': du}, 'mut': {'k': {'f': du}},
        'br': {'p': du}}}}}))
    after = {p: n.value for p, n in store_nodes(e.state).items()
             if not n.inner and not isinstance(n.value, Process)}
    ind = []
    d0path = pre + ('agents', 'm0')
    for p, (i, v) in before.items():
        if p[:len(d0path)] == d0path:
            continue
        ind.append(_same(after.get(p, KeyError), v))
    ctx.claim('C11.independent', AND(ind), sig='independent',
              info=lambda: dict(changed=[str(p) for p, (i, v) in before.items()
                                         if p[:len(d0path)] != d0path and
                                         _same(after.get(p, KeyError), v)
                                         is False]))
    # ---- second generation: m1 divides again
    if two_gen:
        ctx.goal('second generation')
        explicit.clear()
        env_explicit.clear()
        mut_explicit = False
        CTX['queue'].append({'_divide': {'mother': 'm1',
                                         'daughters': daughters('m1')}})
        m1 = get(e.state.get_value(), pre)['agents']['m1']['s']
        try:
            e.update(1)
        except PathControl:
            raise
        except RuntimeError as err:
            ctx.check_poison()
            if 'still pending' in str(err):
                # daughters copied from an in-flight mother process: C10's
                # known finding, not a statement of C11
                ctx.cut_foreign(err)
            raise
        ag2 = get(e.state.get_value(), pre)['agents']
        ok = sorted(ag2) == ['m0', 'm10', 'm11']
        ctx.claim('C11.shares', ok, sig='daughter-keys-2', info=lambda: dict(
            keys=sorted(ag2)))
        if ok:
            a, b = ag2['m10']['s'], ag2['m11']['s']
            ctx.claim('C11.conserved', a['split'] + b['split'] == m1['split']
                      and abs(a['split'] - b['split']) <= 1, sig='conserved-2',
                      info=lambda: dict(m1=m1, m10=a, m11=b))
            ctx.claim('C11.shares', AND(
                EQ(a['set'], m1['set']), EQ(b['set'], m1['set']),
                EQ(a['nul'], 9), EQ(b['nul'], 9),
                EQ(a['conf'], m1['conf'] + 5), EQ(b['conf'], m1['conf'])),
                sig='shares-2', info=lambda: dict(m1=m1, m10=a, m11=b))


def _same(a, b):
    if a is KeyError:
        return False
    if isinstance(a, dict) or isinstance(b, dict):
        if not (isinstance(a, dict) and isinstance(b, dict)) or \
                set(a) != set(b):
            return False
        return AND([_same(a[k], b[k]) for k in a])
    if is_sym(a) or is_sym(b):
        return EQ(a, b)
    return a == b
OPTIONAL_CLAIMS = ('C11.kernel',)
