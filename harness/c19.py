"""C19 - timeline events fire exactly once, on time, in any listing order."""
from vivarium.core.engine import Engine
from vivarium.core.process import Process
from vivarium.core.composition import add_timeline
from vivarium.processes.timeline import TimelineProcess

from vsym.core import AND, OR, NOT, ite, EQ
from vsym import stubs

PROPERTY = 'C19'
CLAIMS = {
    'C19.rows': 'at every emitted time each driven variable holds the value of '
                'the latest (time, listing order) event fired so far, else its '
                'initial value',
    'C19.once': 'each event is handed to the engine exactly once iff its tick '
                'happened (events on distinct variables)',
}
GOALS = {
    'quick': ['unsorted listing', 'two events in one tick', 'equal times',
              'event never fires',
              'one dictionary object listed for two events',
              'two forced calls, the first not a multiple of the tick'],
    'thorough': ['unsorted listing', 'two events in one tick', 'equal times',
                 'event never fires',
                 'one dictionary object listed for two events',
              'two forced calls, the first not a multiple of the tick'],
}
STUBS = ['Holder process declaring the driven variables (_emit)',
         'recording user Emitter (vsym_rec)']
ASSUMPTIONS = [
    'integer time grid; timeline clock starts at 0 together with the engine',
    'timeline timestep tau is a constant chosen per job (1..3); event times, '
    'values, initial values and run lengths are symbolic']
BOUNDS = {
    'quick': 'n<=3 events, event times in [0,T] T=4, tau in {1,2,3}, one '
             'update(R) R in [1,T+2tau]; distinct and shared target variables; '
             'direct construction and add_timeline',
    'thorough': 'n<=4 events, T=5, tau in {1,2,3}, run_for(R1)+run_for(R2,force)',
}
OUTSIDE = 'float event times / timesteps; more events; timelines nested in ' \
          'agents; events that add or delete structure'


class Holder(Process):
    def ports_schema(self):
        leaves = {v: {'_default': 7, '_emit': True}
                  for v in self.parameters['vars']}
        if self.parameters.get('nested'):
            return {'store': {'sub': leaves}}
        return {'store': leaves}

    def next_update(self, timestep, states):
        return {}


def jobs(tier):
    out = []
    ns = (2, 3) if tier == 'quick' else (2, 3, 4)
    T = 4 if tier == 'quick' else 5
    for n in ns:
        for tau in (1, 2, 3):
            for shared in (False, True):
                for entry in ('direct', 'add_timeline'):
                    if entry == 'add_timeline' and (n == 4 or shared):
                        continue
                    calls = 1 if (tier == 'quick' or n == 4) else 2
                    if entry == 'direct' and n == 2:
                        out.append(dict(
                            name='n2-tau%d-%s-nested' % (
                                tau, 'shared' if shared else 'distinct'),
                            n=n, tau=tau, shared=shared, entry=entry, T=T,
                            calls=1, nested=True,
                            budget_s=100 if tier == 'quick' else 900))
                    if entry == 'direct' and n == 2 and not shared \
                            and tau > 1:
                        out.append(dict(
                            name='n2-tau%d-two-forced-calls' % tau,
                            n=n, tau=tau, shared=shared, entry=entry, T=T,
                            calls=2, forced2=True,
                            budget_s=100 if tier == 'quick' else 900))
                    if entry == 'direct' and n == 3 and not shared:
                        out.append(dict(
                            name='n3-tau%d-shared-dict-object' % tau,
                            n=n, tau=tau, shared=shared, entry=entry, T=T,
                            calls=1, shared_dict=True,
                            budget_s=100 if tier == 'quick' else 900))
                    out.append(dict(
                        name='n%d-tau%d-%s-%s-M%d' % (
                            n, tau, 'shared' if shared else 'distinct',
                            entry, calls),
                        n=n, tau=tau, shared=shared, entry=entry, T=T,
                        calls=calls, budget_s=100 if tier == 'quick' else 900,
                        crosscheck=40 if tier == 'thorough' else 0))
    return out


def _sig_factory(n, tau, times):
    def sig(m):
        return 'timeline'
    return sig


def body(ctx, cfg):
    n, tau, T = cfg['n'], cfg['tau'], cfg['T']
    times = [ctx.int('t', 0, T) for _ in range(n)]
    vals = [ctx.int('w', 0, 50) for _ in range(n)]   # 0: a falsy value
    if cfg['shared']:
        # events 0 and 1 drive the same variable, the others their own
        var_of = ['v0'] + ['v%d' % max(0, i - 1) for i in range(1, n)]
    else:
        var_of = ['v%d' % i for i in range(n)]
    variables = sorted(set(var_of))
    init = {v: ctx.int('i', -5, -1) for v in variables}
    nested = bool(cfg.get('nested'))
    key = (lambda v: ('store', 'sub', v)) if nested else (lambda v: ('store', v))
    if cfg.get('shared_dict') and n >= 3:
        # the last event is listed with the very dictionary object of the
        # first (the same change applied again later)
        var_of[n - 1] = var_of[0]
        vals[n - 1] = vals[0]
    timeline = [(times[i], {key(var_of[i]): vals[i]}) for i in range(n)]
    if cfg.get('shared_dict') and n >= 3:
        timeline[n - 1] = (times[n - 1], timeline[0][1])
        ctx.goal('one dictionary object listed for two events')
    listing_before = [(t, dict(ch)) for t, ch in timeline]

    sink = stubs.reset_sink()
    holder = Holder({'vars': variables, 'nested': nested})
    if cfg['entry'] == 'direct':
        tp = TimelineProcess({'timeline': timeline, 'time_step': tau})
        processes = {'timeline': tp, 'h': holder}
        topology = {'timeline': {'global': ('global',), 'store': ('store',)},
                    'h': {'store': ('store',)}}
    else:
        processes = {'h': holder}
        topology = {'h': {'store': ('store',)}}
        add_timeline(processes, topology,
                     {'timeline': timeline, 'time_step': tau})
        tp = processes['timeline']
    returned = []
    orig = tp.next_update

    def logged(timestep, states):
        u = orig(timestep, states)
        returned.append(u)
        return u
    tp.next_update = logged
    e = Engine(processes=processes, topology=topology,
               initial_state={'store': {'sub': dict(init)} if nested
                              else dict(init)},
               emitter={'type': 'vsym_rec'}, display_info=False)
    forced2 = bool(cfg.get('forced2'))
    R = 0
    rs = []
    for j in range(cfg['calls']):
        r = ctx.int('R', 1, T if forced2 else T + 2 * tau)
        rs.append(r)
        R = R + r
        e.run_for(r, force_complete=(forced2 or j == cfg['calls'] - 1))

    def ceil_to(t):
        return ((t + (tau - 1)) // tau) * tau if tau > 1 else t

    # ---- oracle (written from the statement; integer ticks 0, tau, 2tau, ..)
    if forced2:
        # two forced calls: the timeline ticks at 0, tau, .. < r1 (the last
        # tick of the first call is cut at r1), then at r1, r1+tau, .. < R.
        # An event fires at the first tick whose time has reached it.
        ctx.goal('two forced calls, the first not a multiple of the tick')
        r1 = rs[0]
        t1 = [ceil_to(t) for t in times]
        in1 = [tk < r1 for tk in t1]
        t2 = [r1 + ceil_to(ite(t > r1, t - r1, 0)) for t in times]
        tick = [ite(a, b, c) for a, b, c in zip(in1, t1, t2)]
        end = [ite(a, ite(b + tau <= r1, b + tau, r1),
                   ite(c + tau <= R, c + tau, R))
               for a, b, c in zip(in1, t1, t2)]
        invoked = [tk < R for tk in tick]

        def fired(j, row_t):
            return AND(invoked[j], end[j] <= row_t)
    else:
        tick = [ceil_to(t) for t in times]
        invoked = [tk < R for tk in tick]   # the tick happened during the run

        def fired(j, row_t):
            return AND(invoked[j], OR(tick[j] + tau <= row_t, R <= row_t))

    def before(k, j):
        return OR(times[k] < times[j],
                  AND(EQ(times[k], times[j]), k < j))

    row_claims = []
    for row in sink['rows']:
        row_t = row['time']
        for v in variables:
            ev = [j for j in range(n) if var_of[j] == v]
            got = (row['store']['sub'] if nested else row['store'])[v]
            alts = [AND([NOT(fired(j, row_t)) for j in ev]
                        + [EQ(got, init[v])])]
            for j in ev:
                last = [fired(j, row_t)] + [
                    OR(NOT(fired(k, row_t)), before(k, j))
                    for k in ev if k != j]
                alts.append(AND(last + [EQ(got, vals[j])]))
            row_claims.append(OR(alts))
    ctx.observe('rows', len(sink['rows']))
    for row in sink['rows']:
        ctx.observe('t', row['time'])
        for v in variables:
            ctx.observe(v, (row['store']['sub'] if nested else row['store'])[v])
    ctx.claim('C19.rows', AND(row_claims), sig='timeline-rows',
              info=lambda: dict(timeline=[(times[i], var_of[i], vals[i])
                                          for i in range(n)],
                                initial=init, tau=tau, rows=sink['rows']))

    if not cfg['shared'] and not cfg.get('shared_dict'):
        once = []
        for j in range(n):
            cnt = 0
            for u in returned:
                if var_of[j] in (u.get('store', {}).get('sub', {}) if nested
                                 else u.get('store', {})):
                    cnt += 1
            once.append(EQ(ite(invoked[j], 1, 0), cnt))
        ctx.claim('C19.once', AND(once), sig='timeline-once',
                  info=lambda: dict(timeline=[(times[i], var_of[i], vals[i])
                                              for i in range(n)],
                                    tau=tau, returned=returned))

    # ---- reachability witnesses (decided by the solver on this path)
    if ctx.symbolic:
        from vsym.core import CUR
        s = ctx.solver
        if n >= 2:
            if 'unsorted listing' not in ctx.goals and s.check_assuming(
                    (times[0] > times[1]).s) == 'sat':
                ctx.goal('unsorted listing')
            if 'equal times' not in ctx.goals and s.check_assuming(
                    (times[0] == times[1]).s) == 'sat':
                ctx.goal('equal times')
            c = AND(EQ(tick[0], tick[1]), times[0] != times[1], invoked[0])
            if 'two events in one tick' not in ctx.goals and \
                    type(c) is not bool and s.check_assuming(c.s) == 'sat':
                ctx.goal('two events in one tick')
        c = NOT(invoked[0])
        if 'event never fires' not in ctx.goals and type(c) is not bool \
                and s.check_assuming(c.s) == 'sat':
            ctx.goal('event never fires')
