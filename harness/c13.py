"""C13 - parallel processes are transparent and always shut down cleanly.
Decided against the in-process transport stub vsym/mpstub.py: the claim is about
the Python protocol code, not about the operating system."""
import copy
import gc

from vivarium.core.engine import Engine
from vivarium.core.process import Process, Step, ParallelProcess

from vsym.core import AND, OR, NOT, EQ, is_sym, PathControl
from vsym.resolve import store_nodes
from vsym import stubs, mpstub

PROPERTY = 'C13'
CLAIMS = {
    'C13.transparent': 'rows, final state and the paths of the published '
                       'composite equal those of the all-serial run of the same '
                       'schedule and history',
    'C13.no_overlap': 'the engine never sends a command to a process that has '
                      'one pending and raises no transport error',
    'C13.collected': 'every result a worker sent is received exactly once',
    'C13.stopped': 'after end() (once or twice) or after the engine is dropped, '
                   'and after a parallel process is deleted / divided away / '
                   'moved, every worker no longer in the hierarchy has been '
                   'told to end, has returned and was joined; workers still in '
                   'the hierarchy are alive until end()',
    'C13.no_hang': 'no recv on an empty pipe and no join on a live worker',
    'C13.wrapped': 'every process marked parallel that is in the hierarchy - '
                   'also one that arrived through _generate or as a daughter - '
                   'is a ParallelProcess wrapper, and the published composite '
                   'holds the very object the store holds',
}
GOALS = {'quick': ['deleted with an update in flight', 'deleted while idle',
                   'end called twice', 'engine dropped without end',
                   'parallel step', 'daughters parallel',
                   'worker->parent pipe of capacity 0',
                   'parallel process without ports'],
         'thorough': ['deleted with an update in flight', 'deleted while idle',
                      'end called twice', 'engine dropped without end',
                      'parallel step', 'daughters parallel',
                      'worker->parent pipe of capacity 0',
                      'parallel process without ports']}
STUBS = ['vivarium.core.process.multiprocessing rebound to vsym.mpstub (threads '
         'with strict hand-off, queues as pipes, hang detection)',
         'pure stub processes with deltas indexed by (name, call)']
ASSUMPTIONS = ['transport contract: ordered delivery, recv on an empty pipe '
               'blocks forever, join returns iff the target returned; messages '
               'by reference (pickling not modelled); OS reaping outside',
               'pipe capacity: unbounded in the base jobs, 0 for the '
               'worker->parent direction in the fullpipe jobs (send blocks '
               'until received; join on a worker blocked sending = hang): '
               'the two extremes of "bounded"']
BOUNDS = {'quick': '2 processes + 1 step, parallel or not (two symbolic flags), '
                   'agent timestep in [1,3], second process self-paced (default calculate_timestep, changes its own timestep from 2 to 1), killer in [1,2], operation in '
                   '{none, delete, divide with parallel daughters, move, generate a parallel process}, stop '
                   'point in {end after run_for without force, end after '
                   'update, end twice, engine dropped}',
          'thorough': 'same with timesteps [1,4] and two run_for calls before '
                      'the stop point'}
OUTSIDE = 'real pipes, pickling, forkserver start-up, OS scheduling, ' \
          'zombies; profile=True (cProfile inside worker threads of the stub ' \
          'is not faithful and conflicts with the explorer\'s own profiler)'

CTX = {}
SUB = {'s': {'x': {'_default': 0, '_emit': True}}}
OPS = ['none', 'delete', 'divide', 'move', 'generate']
STOPS = ['end_after_run_for', 'end_after_update', 'end_twice', 'dropped']


class Grow(Process):
    def __init__(self, parameters):
        super().__init__(parameters)
        self.k = 0

    def ports_schema(self):
        return copy.deepcopy(SUB)

    def calculate_timestep(self, states):
        return CTX['ts'][self.parameters['who']]

    def update_condition(self, timestep, states):
        # a process may override this documented hook; the outcome per poll is
        # a symbolic flag shared by the serial and the parallel run
        if not CTX.get('cond_override') or self.parameters['who'] != 'a':
            return True
        self.polls = getattr(self, 'polls', 0) + 1
        key = ('cond', self.parameters['who'], self.polls)
        if key not in CTX['deltas']:
            CTX['deltas'][key] = CTX['ctx'].flag('uc')
        return CTX['deltas'][key]

    def next_update(self, timestep, states):
        key = (self.parameters['who'], self.k)
        self.k += 1
        if CTX.get('empty_updates') and self.parameters['who'] == 'a':
            return {}          # nothing to report this tick (a falsy result)
        if key not in CTX['deltas']:
            CTX['deltas'][key] = CTX['ctx'].int('d', -3, 3)
        return {'s': {'x': CTX['deltas'][key]}}


class SelfPaced(Process):
    """Keeps the default calculate_timestep() (reads parameters['timestep'])
    and changes its own timestep while running: 2 for the first interval, 1
    afterwards."""

    def __init__(self, parameters):
        parameters = dict(parameters, timestep=2)
        super().__init__(parameters)
        self.k = 0

    def ports_schema(self):
        return copy.deepcopy(SUB)

    def next_update(self, timestep, states):
        key = ('q', self.k)
        self.k += 1
        self.parameters['timestep'] = 1
        if key not in CTX['deltas']:
            CTX['deltas'][key] = CTX['ctx'].int('d', -3, 3)
        return {'s': {'x': CTX['deltas'][key]}}


class Heartbeat(Process):
    """declares no ports at all (its schema is the empty dictionary); long
    timestep, so that it has an update in flight when structure changes"""

    def ports_schema(self):
        return {}

    def calculate_timestep(self, states):
        return 3

    def next_update(self, timestep, states):
        CTX['beats'] = CTX.get('beats', 0) + 1
        return {}


class LegacyDer(Process):
    """a deriver of the old kind: a Process that says is_deriver(); listed
    under processes"""

    def is_deriver(self):
        return True

    def ports_schema(self):
        return {'s': {'x': {'_default': 0},
                      'v': {'_default': 0, '_updater': 'set', '_emit': True}}}

    def next_update(self, timestep, states):
        return {'s': {'v': states['s']['x'] * 2}}


class Copy(Step):
    def ports_schema(self):
        return {'s': {'x': {'_default': 0},
                      'w': {'_default': 0, '_updater': 'set', '_emit': True}}}

    def next_update(self, timestep, states):
        return {'s': {'w': states['s']['x'] + 1}}


class Killer(Process):
    def __init__(self, parameters):
        super().__init__(parameters)
        self.n = 0

    def ports_schema(self):
        return {'agents': {'*': copy.deepcopy(SUB)},
                'away': {'*': copy.deepcopy(SUB)}}

    def calculate_timestep(self, states):
        return CTX['ts']['k']

    def next_update(self, timestep, states):
        self.n += 1
        op = self.parameters['op']
        if self.n == 2:
            # a second, harmless structural update: the views are rebuilt
            # while generated / daughter processes may have updates in flight
            return {'away': {'_add': [{'key': 'late', 'state': {}}]}}
        if self.n != 1 or 'a' not in states['agents']:
            return {}
        if op == 'delete':
            return {'agents': {'_delete': ['a']}}
        if op == 'move':
            return {'agents': {'_move': [{'source': ('a',),
                                          'target': ('away',)}]}}
        if op == 'generate':
            g = Grow({'who': 'a0',
                      '_parallel': self.parameters['daughters_parallel']})
            CTX['made'].append(g)
            return {'agents': {'_generate': [{
                'key': 'gen', 'processes': {'grow': g},
                'topology': {'grow': {'s': ('s',)}}, 'initial_state': {}}]}}
        if op == 'divide':
            ds = []
            for sfx in '01':
                g = Grow({'who': 'a' + sfx,
                          '_parallel': self.parameters['daughters_parallel']})
                CTX['made'].append(g)
                ds.append({'key': 'a' + sfx, 'processes': {'grow': g},
                           'topology': {'grow': {'s': ('s',)}},
                           'initial_state': {}})
            return {'agents': {'_divide': {'mother': 'a', 'daughters': ds}}}
        return {}


def jobs(tier):
    q = tier == 'quick'
    out = []
    for op in OPS:
        for stop in STOPS:
            if op == 'generate' and q and stop in ('end_after_run_for',
                                                   'end_twice'):
                continue
            for pd in ((True, False) if op in ('divide', 'generate')
                       else (None,)):
                out.append(dict(
                    name='%s-%s%s' % (op, stop, '' if pd is None else
                                      '-daughters%d' % pd),
                    op=op, stop=stop, pd=pd, B=3 if q else 4,
                    budget_s=100 if q else 900, validate=1,
                    crosscheck=0 if q else 10))
    # a parallel process without any port, busy while structure changes
    for op in (('delete', 'generate') if q else ('delete', 'divide', 'move',
                                                 'generate')):
        out.append(dict(name='heartbeat-%s' % op, op=op,
                        stop='end_after_update',
                        pd=(False if op in ('divide', 'generate') else None),
                        B=3, heartbeat=True, budget_s=100 if q else 900,
                        validate=1))
    # the same under a worker->parent pipe of capacity 0 (large results: the
    # worker's send blocks until the parent receives)
    for op in (('delete', 'divide') if q else OPS):
        for stop in STOPS:
            for pd in ((True,) if op in ('divide', 'generate') else (None,)):
                out.append(dict(
                    name='fullpipe-%s-%s' % (op, stop), op=op, stop=stop,
                    pd=pd, B=3, rendezvous=True, budget_s=100 if q else 900,
                    validate=1))
    return out


def run_once(ctx, cfg, flags, ivs, tag):
    """One engine run; returns dict(rows, final, paths, error)."""
    mpstub.reset()
    CTX['made'] = []
    sink_rows = stubs.SINK['tags']
    grow = Grow({'who': 'a', '_parallel': flags['a']})
    other = SelfPaced({'_parallel': flags['q']})
    step = Copy({'_parallel': flags['st']})
    killer = Killer({'op': cfg['op'],
                     'daughters_parallel': flags['daughters']})
    extra_p, extra_t = {}, {}
    deep = None
    if cfg.get('heartbeat'):
        # a parallel process two levels below the compartment that the killer
        # deletes / divides / moves (agents/a/org/deep)
        deep = Grow({'who': 'e', '_parallel': flags['q']})
        CTX['ts']['e'] = 3
    if cfg.get('heartbeat'):
        extra_p['hb'] = Heartbeat({'_parallel': flags['q']})
        extra_t['hb'] = {}
        extra_p['ld'] = LegacyDer({'_parallel': flags['q']})
        extra_t['ld'] = {'s': ('qs',)}
    out = dict(rows=None, final=None, paths=None, error=None, workers=None)
    e = None
    try:
        e = Engine(
            processes=dict({'k': killer, 'agents': {'a': dict(
                {'grow': grow}, **({'org': {'deep': deep}} if deep else {}))},
                            'q': other}, **extra_p),
            steps={'st': step}, flow={'st': []},
            topology=dict({'k': {'agents': ('agents',), 'away': ('away',)},
                           'agents': {'a': dict(
                               {'grow': {'s': ('s',)}},
                               **({'org': {'deep': {'s': ('s',)}}}
                                  if deep else {}))},
                           'q': {'s': ('qs',)}, 'st': {'s': ('qs',)}},
                          **extra_t),
            emitter={'type': 'vsym_rec', 'tag': tag}, display_info=False,
            profile=bool(cfg.get('profile')))
        stop = cfg['stop']
        if stop == 'end_after_run_for':
            e.run_for(ivs[0], force_complete=False)
        else:
            e.update(ivs[0])
        out['final'] = {p: n.value for p, n in store_nodes(e.state).items()
                        if not n.inner and not isinstance(n.value, Process)}
        out['paths'] = sorted(
            p for p, n in store_nodes(e.state).items()
            if not n.inner and isinstance(n.value, Process))
        live_workers = {id(n.value.multiprocess)
                        for p, n in store_nodes(e.state).items()
                        if not n.inner and isinstance(n.value, ParallelProcess)}
        from vivarium.library.topology import get_in
        out['not_wrapped'] = [
            p for p, n in store_nodes(e.state).items()
            if not n.inner and isinstance(n.value, Process)
            and n.value.parallel and not isinstance(n.value, ParallelProcess)]
        out['published_differs'] = [
            p for p, n in store_nodes(e.state).items()
            if not n.inner and isinstance(n.value, Process)
            and get_in(e.processes, p, get_in(e.steps, p)) is not n.value]
        if stop != 'end_after_run_for':
            # what the published composite shows of each process (read
            # through the wrapper for a parallel one); not after an unforced
            # run_for, where a command may legitimately be pending
            out['attrs'] = {
                p: (n.value.name, sorted(
                    k for k in n.value.parameters if k != '_parallel'),
                    n.value.parameters.get('who'), n.value.is_step(),
                    sorted(n.value.schema))
                for p, n in store_nodes(e.state).items()
                if not n.inner and isinstance(n.value, Process)}
        out['gone_not_stopped'] = [
            w for w in mpstub.WORKERS
            if id(w) not in live_workers and not (w.told_to_end and w.joined)]
        out['live_dead'] = [w for w in mpstub.WORKERS
                            if id(w) in live_workers and not w.is_alive()]
        if stop in ('end_after_run_for', 'end_after_update', 'end_twice'):
            e.end()
            if stop == 'end_twice':
                e.end()
        else:
            # the engine is dropped without end(): the wrappers' __del__ runs
            del e
            e = None
            grow = other = step = killer = None
            CTX['made'] = []
            del mpstub.EVENTS[:]
            gc.collect()
            dropped_errors = [ev for ev in mpstub.EVENTS
                              if ev[0] == 'unraisable']
            if dropped_errors:
                raise RuntimeError('dropping the engine raised in __del__: %s'
                                   % dropped_errors[0][1])
    except PathControl:
        raise
    except Exception as err:
        ctx.check_poison()
        out['error'] = err
    out['rows'] = list(sink_rows.get(tag, []))
    out['workers'] = [dict(told=w.told_to_end, done=not w.is_alive(),
                           joined=w.joined,
                           sent=w.sh.sent_to_parent,
                           received=w.sh.received_by_parent)
                      for w in mpstub.WORKERS]
    out['events'] = list(mpstub.EVENTS)
    return out


def body(ctx, cfg):
    mpstub.install()
    mpstub.RENDEZVOUS = bool(cfg.get('rendezvous'))
    if mpstub.RENDEZVOUS:
        ctx.goal('worker->parent pipe of capacity 0')
    CTX.clear()
    CTX['ctx'] = ctx
    B = cfg['B']
    CTX['ts'] = {'a': ctx.int('tsa', 1, B), 'q': 2,
                 'k': ctx.int('tsk', 1, 2), 'a0': ctx.int('tsd', 1, 2)}
    CTX['ts']['a1'] = CTX['ts']['a0']
    CTX['deltas'] = {}
    ivs = [ctx.int('iv', 1, B)]
    pq = ctx.flag('pq')
    flags = {'a': ctx.flag('pa'), 'q': pq, 'st': pq,
             'daughters': bool(cfg.get('pd'))}
    if not any(flags.values()):
        return          # the all-serial run is the reference itself
    # falsy in-flight results matter where the process is removed; a custom
    # update_condition where it keeps running
    CTX['empty_updates'] = (ctx.flag('empty') if flags['a'] and
                            cfg['op'] in ('delete', 'divide') else False)
    CTX['cond_override'] = (ctx.flag('override') if flags['a'] and
                            cfg['op'] in ('none', 'move') else False)
    ctx.note('flags', flags)
    stubs.reset_sink()
    serial = run_once(ctx, cfg, dict.fromkeys(flags, False), ivs, 'serial')
    if serial['error'] is not None:
        ctx.cut_foreign(serial['error'])     # not about parallelism
    par = run_once(ctx, cfg, flags, ivs, 'parallel')
    info = lambda: dict(flags=flags, op=cfg['op'], stop=cfg['stop'],
                        error=repr(par['error']), workers=par['workers'],
                        events=par['events'])
    if flags['st']:
        ctx.goal('parallel step')
    if flags['daughters']:
        ctx.goal('daughters parallel')
    if cfg['stop'] == 'end_twice':
        ctx.goal('end called twice')
    if cfg['stop'] == 'dropped':
        ctx.goal('engine dropped without end')
    if cfg.get('heartbeat') and flags['q']:
        ctx.goal('parallel process without ports')
    # in flight / idle witnesses: the killer's update is applied at tsk
    if cfg['op'] == 'delete' and flags['a'] and ctx.symbolic:
        tsa, tsk = CTX['ts']['a'], CTX['ts']['k']
        s = ctx.solver
        if s.check_assuming(AND(tsk <= ivs[0], tsk % 1 == 0,
                                NOT(EQ(tsk, tsa)), tsa > tsk).s) == 'sat':
            ctx.goal('deleted with an update in flight')
        if s.check_assuming(AND(tsk <= ivs[0], EQ(tsk, tsa)).s) == 'sat':
            ctx.goal('deleted while idle')
    err = par['error']
    sig = 'none'
    if err is not None:
        msg = str(err)
        sig = ('command-still-pending' if 'still pending' in msg else
               'hang' if isinstance(err, mpstub.Hang) else
               'pipe-closed' if isinstance(err, BrokenPipeError) else
               type(err).__name__) + ':' + cfg['op']
    ctx.claim('C13.no_overlap', err is None, sig=sig, info=info)
    ctx.claim('C13.no_hang', not any(ev[0] == 'hang' for ev in par['events']),
              sig='hang:' + cfg['op'], info=info)
    if err is not None:
        return
    # ---- transparent
    eq = [len(par['rows']) == len(serial['rows']),
          par['paths'] == serial['paths'],
          set(par['final']) == set(serial['final'])]
    for a, b in zip(par['rows'], serial['rows']):
        la, lb = stubs.leaves(a), stubs.leaves(b)
        eq.append(set(la) == set(lb))
        eq += [EQ(la[k], lb[k]) for k in la if k in lb]
    eq += [EQ(par['final'][k], serial['final'][k]) for k in par['final']
           if k in serial['final']]
    eq.append(par.get('attrs') == serial.get('attrs'))
    ctx.claim('C13.transparent', AND(eq), sig='transparent:' + cfg['op'],
              info=lambda: dict(serial=serial['rows'], parallel=par['rows'],
                                **info()))
    for r in par['rows']:
        for k, v in sorted(stubs.leaves(r).items()):
            ctx.observe(str(k), v)
    # ---- stopped / collected
    ws = par['workers']
    ctx.claim('C13.wrapped', not par.get('not_wrapped') and
              not par.get('published_differs'), sig='wrapped:' + cfg['op'],
              info=lambda: dict(not_wrapped=par.get('not_wrapped'),
                                published_differs=par.get('published_differs'),
                                **info()))
    ctx.claim('C13.stopped', AND(
        [not par.get('gone_not_stopped'), not par.get('live_dead')]
        + [w['told'] and w['done'] and w['joined'] for w in ws]),
        sig='stopped:%s:%s' % (cfg['op'], cfg['stop']), info=info)
    ctx.claim('C13.collected', all(w['sent'] == w['received'] for w in ws),
              sig='collected:' + cfg['op'], info=info)
