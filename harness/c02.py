"""C02 - the timestep handed to a process equals the simulated interval."""
from vsym.core import (AND, OR, NOT, ite, EQ, IMPLIES, evaluate, SUM)
from . import sched, c01

PROPERTY = 'C02'
CLAIMS = {
    'C02.len': 'timestep argument of each next_update = (time its update is '
               'applied) - (start of its interval)',
    'C02.contiguous': 'the first interval starts at the entry time, each next '
                      'one where the previous ended; after a quiet poll the '
                      'next interval starts at the time the process was '
                      'advanced to (the clock at its next invocation)',
    'C02.sum': 'without update conditions the timesteps handed to a process sum '
               'to the simulated time elapsed',
    'C02.complete': 'after update() every process is simulated up to the global '
                    'time and nothing is pending',
}
GOALS = {t: g + ['zero-length call'] for t, g in c01.GOALS.items()}
STUBS = c01.STUBS
ASSUMPTIONS = c01.ASSUMPTIONS
BOUNDS = c01.BOUNDS
OUTSIDE = c01.OUTSIDE


def jobs(tier):
    """C01's configurations plus zero-length calls (update(0) /
    run_for(0, force_complete=True) after unforced calls: the way to bring
    deferred processes up to the clock).  Only C02's statements are claimed
    for them: such a call re-invokes processes that are already level with the
    clock with timestep 0 and may emit a second row for the same time, which
    the statements of C01 / C03 / C12 (intervals of positive length) do not
    cover."""
    J = list(c01.jobs(tier))
    # a precision with a single forced call that may end off the 10^-p grid
    # (fronts stay on the grid): the truncated interval is handed as it is
    J.append(c01._cfg('offgrid-end-p0-M1', 2, 1, 3, 'const', 'none', tier,
                      precision=0, ts_grid=[1, 2],
                      iv_grid=[0.5, 1.5, 2.5, 1.0, 2.25], K=6))
    if tier == 'quick':
        J.append(c01._cfg('zerolen-N2', 2, 3, 3, 'const', 'none', tier,
                          iv_min=0, IV=2))
    else:
        J.append(c01._cfg('zerolen-N2', 2, 3, 3, 'const', 'none', tier,
                          iv_min=0))
        J.append(c01._cfg('zerolen-condfresh-N2', 2, 3, 2, 'const', 'fresh',
                          tier, iv_min=0))
    return J


def len_signature(run, m):
    bad = []
    for n, p in run.procs.items():
        ap = {t[1]: g for t, g, _ in run.applied if t[0] == n}
        for c in p.ncalls:
            if c['k'] not in ap:
                continue
            a, s, ts = (evaluate(ap[c['k']], m), evaluate(c['start'], m),
                        evaluate(c['ts'], m))
            asked, end = evaluate(c['asked'], m), evaluate(c['end'], m)
            if None in (a, s, ts, asked, end):
                continue
            if ts != a - s:
                bad.append('truncated-interval-handed-requested-timestep'
                           if (c['force'] and s + asked > end and ts == asked)
                           else 'other')
    return '+'.join(sorted(set(bad))) or 'none'


def body(ctx, cfg):
    run, crashed = c01.scenario(ctx, cfg, 'C02')
    describe = lambda: sched.describe(run, getattr(ctx, 'm', {}))
    sig = lambda m: len_signature(run, m)
    if crashed is not None:
        if isinstance(crashed, AssertionError):
            ctx.claim('C02.complete', False, sig=sig,
                      info=lambda: repr(crashed))
            return
        ctx.cut_foreign(crashed)           # C01.runs
    ctx.assume(AND(sched.monotone_expr(run), sched.progress_expr(run)))
    e = run.engine
    G = e.global_time
    ln, contiguous, total = [], [], []
    for n, p in run.procs.items():
        ap = {t[1]: g for t, g, _ in run.applied if t[0] == n}
        prev_apply = run.g0  # entry time
        quiet_since = False
        anchor = None        # front at the first poll after a quiet run
        for q in p.polls:
            if q['cond'] is False:
                quiet_since = True
                anchor = None
                continue
            if quiet_since and anchor is None:
                # a quiet process was advanced with the clock: at its next
                # poll (invoked or deferred) its front is the clock
                contiguous.append(EQ(q['front'], q['g']))
                anchor = q['front']
            if q['call'] is None:
                continue         # deferred: polled, not invoked
            c = p.ncalls[q['call']]
            if c['k'] in ap:
                ln.append(EQ(c['ts'], ap[c['k']] - c['start']))
            if quiet_since:
                contiguous.append(EQ(c['start'], anchor))
            else:
                contiguous.append(EQ(c['start'], prev_apply))
            quiet_since = False
            anchor = None
            prev_apply = ap.get(c['k'], c['start'] + c['ts']
                                if c.get('empty') else prev_apply)
        if cfg['cond'] == 'none':
            total.append(EQ(SUM([c['ts'] for c in p.ncalls]), G - run.g0))
    ctx.claim('C02.len', AND(ln), sig=sig, info=describe)
    ctx.claim('C02.contiguous', AND(contiguous), sig=sig, info=describe)
    ctx.claim('C02.sum', AND(total), sig=sig, info=describe)
    complete = []
    front = getattr(e, 'front', None)
    if front is not None:
        for path, adv in front.items():
            complete.append(EQ(adv['time'], G))
            complete.append(len(adv['update']) == 0)
    complete.append(len(run.applied) == sum(
        len([c for c in p.ncalls if not c.get('empty')])
        for p in run.procs.values()))
    ctx.claim('C02.complete', AND(complete), sig=sig, info=describe)
    for n, p in run.procs.items():
        for c in p.ncalls:
            ctx.observe('ts_' + n, c['ts'])
            ctx.observe('start_' + n, c['start'])
    c01.goals(ctx, run)
