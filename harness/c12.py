"""C12 - the emitted history is a faithful, ordered sequence of snapshots."""
from vivarium.core.engine import Engine
from vivarium.core.process import Process, Step

from vsym.core import AND, OR, NOT, EQ, IMPLIES, is_sym, PathControl
from vsym import stubs

PROPERTY = 'C12'
CLAIMS = {
    'C12.first': 'the first record is the configuration, the second a history '
                 'row for the initial time taken after the initial step phase',
    'C12.every_event': 'with emit_step 1 there is exactly one row per time at '
                       'which a batch of updates was applied, emitted after '
                       'that batch\'s step phase',
    'C12.increasing': 'time keys are strictly increasing',
    'C12.content': 'the leaves of each row are exactly the variables flagged for '
                   'emission, with the values the hierarchy holds at that moment '
                   '(own traversal of the store), and the time key is the '
                   'global time',
    'C12.subset': 'with a larger emit_step the rows are a sub-sequence of the '
                  'emit_step=1 rows of the same schedule, equal in content',
    'C12.ram': 'the real RAMEmitter (orjson path, values concretised) stores '
               'one row per emitted time with the same content',
}
OPTIONAL_CLAIMS = ('C12.ram', 'C12.subset', 'C12.every_event')
GOALS = {'quick': ['emit_step greater than a timestep', 'flag off',
                   'branch-level flag', 'rows change shape'],
         'thorough': ['emit_step greater than a timestep', 'flag off',
                      'branch-level flag', 'rows change shape']}
STUBS = ['pure stub processes with symbolic constant timesteps and deltas '
         '(indexed by process and call); a step recording batch times; '
         'recording user Emitter whose hook snapshots the store by the '
         'harness\'s own traversal; Serializer for the proxy types registered '
         'in the public serializer_registry (RAMEmitter configuration)']
ASSUMPTIONS = ['integer time, integer emit_step, plus one configuration with concrete dyadic float timesteps (0.25, 0.5, 1.0, 1.5) chosen by forking - times concrete, values symbolic; units/custom serializers are '
               'exercised only on the concretised RAMEmitter configuration '
               'without quantities (pint is outside the solver claim)']
BOUNDS = {'quick': 'N=2 processes, timesteps [1,3], run_for(<=6) then run_for(<=2) (emit_step 1: <=3, <=3), '
                   'emit_step in {1,2,3} (one job each), 2 emit flags symbolic (others fixed, one off), '
                   'flags via schema / store_schema / branch-level _emit; rows under structural histories (7 operation kinds) compared with the store at emission',
          'thorough': 'timesteps [1,4], intervals <=5, emit_step in 1..4'}
OUTSIDE = 'DatabaseEmitter (MongoDB); quantities'

CTX = {}


class P(Process):
    def __init__(self, parameters):
        super().__init__(parameters)
        self.k = 0

    def ports_schema(self):
        n = self.name
        sch = {'s': {'x_' + n: {'_default': 0},
                     'h_' + n: {'_default': 1}},
               'r': {'q_' + n: {'_default': 5}},
               # a variable two levels below the branch that carries the
               # branch-level flag
               'sd': {'deep': {'k_' + n: {'_default': 2}}},
               # a falsy non-numeric value that must still be emitted
               'b': {'off_' + n: {'_default': False, '_updater': 'set',
                                  '_emit': True}}}
        if self.parameters['via'] in ('branch', 'store_schema'):
            # leaves carry their own flags; the branch-level flag given through
            # store_schema must override all of them
            lf = self.parameters['leaf_flags']
            sch['s']['x_' + n]['_emit'] = lf[0]
            sch['s']['h_' + n]['_emit'] = lf[1]
            sch['r']['q_' + n]['_emit'] = lf[2]
            sch['sd']['deep']['k_' + n]['_emit'] = lf[1]
        if self.parameters['via'] == 'schema':
            f = self.parameters['flags']
            sch['s']['x_' + n]['_emit'] = f[('s', 'x_' + n)]
            sch['s']['h_' + n]['_emit'] = f[('s', 'h_' + n)]
            sch['r']['q_' + n]['_emit'] = f[('r', 'q_' + n)]
            sch['sd']['deep']['k_' + n]['_emit'] = f[('s', 'deep', 'k_' + n)]
        return sch

    def calculate_timestep(self, states):
        return CTX['ts'][self.name]

    def next_update(self, timestep, states):
        key = (self.name, self.k)
        self.k += 1
        if key not in CTX['deltas']:
            CTX['deltas'][key] = CTX['ctx'].int('d', -3, 3)
        return {'s': {'x_' + self.name: CTX['deltas'][key],
                      'h_' + self.name: 1},
                'r': {'q_' + self.name: 1},
                'sd': {'deep': {'k_' + self.name: 1}}}


class UnitsProc(Process):
    """a variable with declared units (updated in another compatible unit)
    and a variable with a custom serializer, both emitted"""

    def ports_schema(self):
        from vivarium.library.units import units
        return {'u': {'mass': {'_default': 1.0 * units.g, '_units': units.g,
                               '_emit': True},
                      'tag': {'_default': 3, '_emit': True,
                              '_serializer': CTX['tag_serializer']},
                      # a quantity-valued variable with a custom serializer
                      'qtag': {'_default': 2.0 * units.g, '_emit': True,
                               '_serializer': CTX['q_serializer']},
                      # counts down from its non-zero default to 0
                      'left': {'_default': 2, '_updater': 'set',
                               '_emit': True},
                      'on': {'_default': True, '_updater': 'set',
                             '_emit': True},
                      # a list of quantities (units taken from the first)
                      'qlist': {'_default': [1.0 * units.g, 2.0 * units.g],
                                '_updater': 'set', '_emit': True}}}

    def calculate_timestep(self, states):
        return 1

    def next_update(self, timestep, states):
        from vivarium.library.units import units
        self.k = getattr(self, 'k', 0) + 1
        return {'u': {'mass': 500.0 * units.mg, 'tag': 1,
                      'qtag': 1.0 * units.g,
                      'qlist': [float(self.k) * units.g, 500.0 * units.mg],
                      'left': max(0, 2 - self.k), 'on': self.k < 2}}


class Last(Step):
    """Runs once per phase: records batch times; writes w := x_p0 + 1."""

    def ports_schema(self):
        return {'s': {'x_p0': {'_default': 0},
                      'w': {'_default': 0, '_updater': 'set',
                            '_emit': self.parameters['emit_w']}}}

    def next_update(self, timestep, states):
        e = CTX.get('engine')
        CTX['batches'].append(e.global_time if e else 0)
        return {'s': {'w': states['s']['x_p0'] + 1}}


def jobs(tier):
    q = tier == 'quick'
    out = []
    for via in ('schema', 'store_schema', 'branch'):
        for es in ((1, 2, 3) if q else (1, 2, 3, 4)):
            out.append(dict(name='rec-%s-es%d' % (via, es), via=via,
                            emitter='rec', B=3 if q else 4,
                            IVS=([3, 3] if es == 1 else [6, 2]) if q
                            else [8, 4],
                            es=es, nflags=2 if q else 4,
                            budget_s=100 if q else 1200,
                            crosscheck=0 if q else 20))
    for es in (1, 2):
        out.append(dict(name='dyadic-es%d' % es, via='schema', emitter='rec',
                        B=3, IVS=[0, 0], es=es, nflags=1, dyadic=True,
                        budget_s=100 if q else 600))
    for flavor in ('none', 'flow'):
        for k in range(7):
            out.append(dict(name='history-%s-%d' % (flavor, k), part='history',
                            flavor=flavor, ops=[k] if q else [k, None],
                            budget_s=100 if q else 900))
    for es in (1, 2):
        out.append(dict(name='ram-schema-es%d' % es, via='schema', units=True,
                        emitter='ram', B=2, IVS=[3], es=es, nflags=1,
                        budget_s=100 if q else 600, dlo=0, dhi=1))
    return out


def run_engine(ctx, cfg, flags, es, ivs):
    names = ['p0', 'p1']
    for n in names:
        pass
    CTX['batches'] = []
    CTX['engine'] = None
    CTX['deltas_used'] = 0
    recs = []

    def hook(data):
        e = CTX.get('engine')
        st = e.state if e is not None else CTX['pending_state']()
        recs.append(dict(table=data['table'],
                         data=dict(data['data']) if data['table'] == 'history'
                         else None,
                         snap=stubs.walk_values(st) if st is not None else None,
                         g=e.global_time if e is not None else 0,
                         nb=len(CTX['batches'])))
    sink = stubs.reset_sink(hook)
    procs = {n: P({'name': n, 'via': cfg['via'], 'flags': flags,
                   'leaf_flags': CTX.get('leaf_flags')})
             for n in names}
    kwargs = {}
    if cfg['via'] == 'store_schema':
        ss = {}
        for path_, f in flags.items():
            if path_[-1] == 'w':
                continue
            d_ = ss
            for seg in path_[:-1]:
                d_ = d_.setdefault(seg, {})
            d_[path_[-1]] = {'_emit': f}
        kwargs['store_schema'] = ss
    elif cfg['via'] == 'branch':
        kwargs['store_schema'] = {
            's': {'_emit': flags[('s', 'x_p0')],
                  'h_p1': {'_emit': flags[('s', 'h_p1')]}},
            'r': {'_emit': flags[('r', 'q_p0')]}}
    emitter = {'type': 'vsym_rec' if cfg['emitter'] == 'rec' else 'vsym_ram'}
    extra_topology = {}
    if cfg.get('units'):
        from vivarium.core.registry import Serializer

        class TagSerializer(Serializer):
            python_type = None

            def serialize(self, data):
                return 'tag<%d>' % data
        CTX['tag_serializer'] = TagSerializer()

        class QSerializer(Serializer):
            python_type = None

            def serialize(self, data):
                return 'qtag<%.1f>' % data.magnitude
        CTX['q_serializer'] = QSerializer()
        procs['up'] = UnitsProc({'name': 'up'})
        from vivarium.library.units import units as _units
        # the initial value arrives in a compatible unit other than the
        # declared one (it is not converted until the first update)
        CTX['units_initial_state'] = {'u': {'mass': 2000.0 * _units.mg}}
        extra_topology['up'] = {'u': ('u',)}
    # the initial emit happens inside the constructor: give the hook access
    holder = {}
    CTX['pending_state'] = lambda: holder.get('state')
    orig_init_emit = Engine._emit_store_data

    e = Engine.__new__(Engine)
    CTX['engine'] = e     # attributes appear as __init__ proceeds
    e.global_time = 0
    Engine.__init__(
        e, processes=procs, steps={'last': Last({'emit_w': flags[('s', 'w')]})},
        flow={'last': []},
        topology={**{n: {'s': ('s',), 'r': ('r',), 'b': ('b',),
                         'sd': ('s',)} for n in names},
                  'last': {'s': ('s',)}, **extra_topology},
        emitter=emitter, emit_step=es, display_info=False,
        initial_state=CTX.get('units_initial_state') or {}, **kwargs)
    for j, iv in enumerate(ivs):
        e.run_for(iv, force_complete=(j == len(ivs) - 1))
    return e, recs


def body_history(ctx, cfg):
    """Rows must follow the changing shape of the hierarchy: a structural
    history (harness/hist.py) runs under the recording emitter; every row is
    compared with the harness's own traversal of the store at emission."""
    from . import hist
    ts_a = ctx.int('tsa', 1, 2)
    ts_g = ctx.int('tsg', 1, 2)
    d = ctx.int('d', -3, 3)
    kinds = [k if k is not None else ctx.choice('op', len(hist.KINDS))
             for k in cfg['ops']]
    recs = []

    def hook(data):
        e = hist.CTX.get('engine') or hist.CTX.get('constructing')
        if data['table'] != 'history' or e is None:
            return
        recs.append(dict(data=dict(data['data']),
                         snap=stubs.walk_values(e.state),
                         g=e.global_time))
    stubs.reset_sink(hook)
    try:
        e = hist.build(ctx, kinds, cfg['flavor'], ts_a, ts_g, d,
                       emitter={'type': 'vsym_rec'})
        e.update(2 * len(kinds) + 2)
    except PathControl:
        raise
    except Exception as err:
        ctx.check_poison()
        ctx.cut_foreign(err)        # in-flight move / divide: C10's findings
    emitted_vars = {'x', 'y', 'm'}            # hist.SUB flags all three
    content = []
    times = []
    for r in recs:
        row = stubs.leaves({k: v for k, v in r['data'].items() if k != 'time'})
        exp = {p: v for p, v in r['snap'].items()
               if p[-1] in emitted_vars and p[-2] == 's'}
        content.append(set(row) == set(exp))
        content.append(EQ(r['data']['time'], r['g']))
        content += [EQ(row[p], exp[p]) for p in row if p in exp]
        times.append(r['data']['time'])
        ctx.observe('t', r['data']['time'])
    info = lambda: dict(history=[hist.KINDS[k] for k in kinds],
                        rows=[r['data'] for r in recs])
    ctx.claim('C12.content', AND(content), sig='content-history', info=info)
    ctx.claim('C12.increasing', AND([b > a for a, b in zip(times, times[1:])]),
              sig='increasing-history', info=info)
    shapes = {tuple(sorted(stubs.leaves({k: v for k, v in r['data'].items()
                                         if k != 'time'}))) for r in recs}
    if len(shapes) > 1:
        ctx.goal('rows change shape')


def body(ctx, cfg):
    if cfg.get('part') == 'history':
        return body_history(ctx, cfg)
    CTX.clear()
    CTX['ctx'] = ctx
    if cfg.get('dyadic'):
        # off-grid times: concrete dyadic floats (exact in binary) chosen by
        # the solver-driven choice; values stay symbolic
        grid = [0.5, 1.0, 1.5, 0.25]
        CTX['ts'] = {n: grid[ctx.choice('tsf', len(grid))]
                     for n in ('p0', 'p1')}
    else:
        CTX['ts'] = {n: ctx.int('ts', 1, cfg['B']) for n in ('p0', 'p1')}
    CTX['deltas'] = {}
    if cfg['emitter'] == 'ram':
        CTX['deltas'] = _LazyDeltas(ctx, cfg['dlo'], cfg['dhi'])
    flags = {}
    var_paths = [('s', 'x_p0'), ('s', 'h_p0'), ('r', 'q_p0'),
                 ('s', 'x_p1'), ('s', 'h_p1'), ('r', 'q_p1'), ('s', 'w')]
    if cfg['via'] == 'branch':
        fs = ctx.flag('fs')
        fr = ctx.flag('fr')
        for p in var_paths:
            flags[p] = fs if p[0] == 's' else fr
        # ... except one leaf below the flagged branch, which carries the
        # opposite flag in the same store_schema dictionary ("the branch but
        # for this variable")
        flags[('s', 'h_p1')] = not fs
        lf = ctx.flag('lf')
        CTX['leaf_flags'] = [lf, not lf, True]
        ctx.goal('branch-level flag')
    else:
        symbolic = [('s', 'x_p0'), ('r', 'q_p0'), ('s', 'w'),
                    ('s', 'h_p0')][:cfg['nflags']]
        for p in var_paths:
            if p in symbolic:
                flags[p] = ctx.flag('em')
            else:                      # keep the flag space small
                flags[p] = p != ('s', 'x_p1')
    for n in ('p0', 'p1'):
        flags[('b', 'off_' + n)] = True
        # s/deep/k_<n>: follows the 's' branch flag under a branch-level
        # override, is on otherwise
        flags[('s', 'deep', 'k_' + n)] = (flags[('s', 'x_p0')]
                                          if cfg['via'] == 'branch' else True)
    if cfg['via'] == 'store_schema':
        # the leaves declare their own flags; the per-leaf store_schema entry
        # must override them in both directions
        lf = ctx.flag('lf')
        CTX['leaf_flags'] = [lf, not lf, True]
    if not all(flags.values()):
        ctx.goal('flag off')
    es = cfg['es']
    if cfg.get('dyadic'):
        ivs = [[1.0, 1.75, 2.5][ctx.choice('ivf', 3)] for _ in cfg['IVS']]
    else:
        ivs = [ctx.int('iv', 1, mx) for mx in cfg['IVS']]
    ctx.note('emit_step', es)
    ctx.note('flags', {'/'.join(k): v for k, v in flags.items()})
    e, recs = run_engine(ctx, cfg, flags, es, ivs)
    info = lambda: dict(emit_step=es, flags=flags,
                        records=[(r['table'], r['data']) for r in recs])
    hist = [r for r in recs if r['table'] == 'history']
    # ---- first
    ctx.claim('C12.first', len(recs) >= 2
              and recs[0]['table'] == 'configuration'
              and recs[1]['table'] == 'history'
              and EQ(recs[1]['data']['time'], 0) is True
              and recs[1]['nb'] == 1, sig='first', info=info)
    # ---- increasing
    times = [r['data']['time'] for r in hist]
    ctx.claim('C12.increasing', AND([b > a for a, b in zip(times, times[1:])]),
              sig='increasing-es%s' % ('1' if es == 1 else '>1'), info=info)
    # ---- content
    content = []
    for r in hist:
        row = stubs.leaves({k: v for k, v in r['data'].items() if k != 'time'})
        exp = {p: v for p, v in r['snap'].items() if flags.get(p, False)}
        if cfg.get('units'):
            exp[('u', 'mass')] = r['snap'][('u', 'mass')]
            exp[('u', 'tag')] = r['snap'][('u', 'tag')]
            exp[('u', 'qtag')] = r['snap'][('u', 'qtag')]
            exp[('u', 'qlist')] = r['snap'][('u', 'qlist')]
            exp[('u', 'left')] = r['snap'][('u', 'left')]
            exp[('u', 'on')] = r['snap'][('u', 'on')]
        content.append(set(row) == set(exp))
        content.append(EQ(r['data']['time'], r['g']))
        for p in row:
            if p == ('u', 'mass'):
                # a quantity is emitted through the units serializer, in the
                # declared units: the string reads back as the stored value
                from vivarium.core.serialize import deserialize_value
                from vivarium.library.units import units
                back = deserialize_value(row[p])
                q = exp[p]
                # (the store may still hold the initial value in the units it
                # was given in; the row is in the declared units)
                content.append(isinstance(row[p], str) and
                               row[p].startswith('!units[') and
                               back.units == units.g and
                               abs(back.magnitude -
                                   q.to(units.g).magnitude) < 1e-9)
            elif p == ('u', 'tag'):
                content.append(row[p] == 'tag<%d>' % exp[p])
            elif p == ('u', 'qtag'):
                content.append(row[p] == 'qtag<%.1f>' % exp[p].magnitude)
            elif p == ('u', 'qlist'):
                from vivarium.core.serialize import deserialize_value
                from vivarium.library.units import units
                ok_l = isinstance(row[p], list) and len(row[p]) == len(exp[p])
                if ok_l:
                    for got_q, want_q in zip(row[p], exp[p]):
                        back = deserialize_value(got_q) if isinstance(
                            got_q, str) else None
                        ok_l = ok_l and back is not None and \
                            back.units == units.g and abs(
                                back.magnitude - want_q.to(units.g).magnitude
                            ) < 1e-9
                content.append(ok_l)
            elif p in exp:
                content.append(EQ(row[p], exp[p]))
    ctx.claim('C12.content', AND(content), sig='content', info=info)
    for r in hist:
        ctx.observe('t', r['data']['time'])
    btimes = CTX['batches'][1:]
    if es == 1:
        ev = [len(hist) == 1 + len(btimes)]
        ev += [EQ(t, b) for t, b in zip(times[1:], btimes)]
        ev += [r['nb'] == i + 1 for i, r in enumerate(hist)]
        ctx.claim('C12.every_event', AND(ev), sig='every_event', info=info)
    else:
        lt = CTX['ts']['p0'] < es
        if lt is True or (ctx.symbolic and lt is not False and
                          'emit_step greater than a timestep' not in ctx.goals
                          and ctx.solver.check_assuming(lt.s) == 'sat'):
            ctx.goal('emit_step greater than a timestep')
        # reference run with emit_step 1, same symbolic constants and deltas
        e1, recs1 = run_engine(ctx, cfg, flags, 1, ivs)
        hist1 = [r for r in recs1 if r['table'] == 'history']
        # every row of the coarse run must equal the fine row with the same
        # time, and the coarse rows must appear in order (sub-sequence)
        sub = []
        for r in hist:
            alts = []
            for r1 in hist1:
                a, b = (stubs.leaves({k: v for k, v in r['data'].items()}),
                        stubs.leaves({k: v for k, v in r1['data'].items()}))
                if set(a) != set(b):
                    continue
                alts.append(AND([EQ(a[k], b[k]) for k in a]))
            sub.append(OR(alts))
        sub += [b > a for a, b in zip(times, times[1:])]
        ctx.claim('C12.subset', AND(sub), sig='subset', info=info)
    if cfg['emitter'] == 'ram':
        data = e.emitter.get_data()
        ok = [len(data) == len(set(map(repr, times)))]
        for r in hist:
            t = r['data']['time']
            t = int(t)
            got = stubs.leaves(data.get(t, {'missing': True}))
            exp = {p: v for p, v in r['snap'].items() if flags.get(p, False)}
            if cfg.get('units'):
                from vivarium.library.units import units as _u
                exp[('u', 'mass')] = '!units[%s]' % str(
                    r['snap'][('u', 'mass')].to(_u.g))
                exp[('u', 'tag')] = 'tag<%d>' % r['snap'][('u', 'tag')]
                exp[('u', 'qtag')] = 'qtag<%.1f>' % \
                    r['snap'][('u', 'qtag')].magnitude
                exp[('u', 'qlist')] = ['!units[%s]' % str(v.to(_u.g))
                                       for v in r['snap'][('u', 'qlist')]]
                exp[('u', 'left')] = r['snap'][('u', 'left')]
                exp[('u', 'on')] = r['snap'][('u', 'on')]
            ok.append(set(got) == set(exp))
            for p in got:
                if p in exp:
                    ok.append(EQ(got[p], exp[p]))
        ctx.claim('C12.ram', AND(ok), sig='ram', info=info)


class _LazyDeltas(dict):
    """deltas with a small range for the concretising configuration"""

    def __init__(self, ctx, lo, hi):
        super().__init__()
        self.ctx, self.lo, self.hi = ctx, lo, hi

    def __contains__(self, key):
        if not dict.__contains__(self, key):
            self[key] = self.ctx.int('d', self.lo, self.hi)
        return True
